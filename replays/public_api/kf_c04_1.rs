//! Public-API demonstration of the recorded known finding KF-C04-1 (property C04) on the real code:
//! a disposable picture that carries the temporal reference of the current reference picture overwrites the
//! reference in the TR-keyed picture store, so the next predicted picture is predicted from the disposable picture.
//!
//! Run in a scratch copy of /repo:  cp kf_c04_1.rs <copy>/h263/tests/ && cargo test -p h263-rs --offline --test kf_c04_1
//! Expected on the current tree: the test FAILS (that is the finding). It would pass once the store is redesigned.

use h263_rs::parser::H263Reader;
use h263_rs::{DecoderOption, H263State};

/// MSB-first bit writer.
struct Bits {
    bytes: Vec<u8>,
    nbits: usize,
}

impl Bits {
    fn new() -> Self {
        Bits {
            bytes: Vec::new(),
            nbits: 0,
        }
    }

    fn put(&mut self, value: u32, count: usize) {
        for i in (0..count).rev() {
            if self.nbits % 8 == 0 {
                self.bytes.push(0);
            }
            if (value >> i) & 1 != 0 {
                *self.bytes.last_mut().unwrap() |= 0x80 >> (self.nbits % 8);
            }
            self.nbits += 1;
        }
    }

    fn finish(mut self) -> Vec<u8> {
        // a few bytes of zero padding behind the picture
        self.bytes.extend_from_slice(&[0, 0, 0, 0]);
        self.bytes
    }
}

/// Sorenson Spark picture header for a 16x16 picture (one macroblock).
/// `ptype`: 0 = I, 1 = P, 2 = disposable P.
fn header(tr: u8, ptype: u32) -> Bits {
    let mut b = Bits::new();
    b.put(1, 17); // start code: 16 zeros, 1
    b.put(0, 5); // version
    b.put(tr as u32, 8); // temporal reference
    b.put(0, 3); // size code 0: 8-bit custom width / height follow
    b.put(16, 8); // width
    b.put(16, 8); // height
    b.put(ptype, 2); // picture type
    b.put(0, 1); // deblocking flag
    b.put(8, 5); // quantizer
    b.put(0, 1); // PEI
    b
}

/// A valid I-picture: one INTRA macroblock, only INTRADC coded.
fn i_picture(tr: u8, dc: u8) -> Vec<u8> {
    let mut b = header(tr, 0);
    b.put(0b1, 1); // MCBPC: INTRA, no chroma AC
    b.put(0b0011, 4); // CBPY: no luma AC
    for _ in 0..6 {
        b.put(dc as u32, 8); // INTRADC
    }
    b.finish()
}

/// A P-picture (`ptype` 1) or disposable P-picture (`ptype` 2) whose only
/// macroblock is INTRA coded with the given DC value, so that its content does
/// not depend on the reference picture.
fn intra_p_picture(tr: u8, ptype: u32, dc: u8) -> Vec<u8> {
    let mut b = header(tr, ptype);
    b.put(0, 1); // COD = 0: coded
    b.put(0b00011, 5); // MCBPC (P table): INTRA, no chroma AC
    b.put(0b0011, 4); // CBPY: no luma AC
    for _ in 0..6 {
        b.put(dc as u32, 8); // INTRADC
    }
    b.finish()
}

/// A P-picture (or disposable P-picture) whose only macroblock is not coded,
/// i.e. a verbatim copy of the reference picture.
fn skipped_p_picture(tr: u8, ptype: u32) -> Vec<u8> {
    let mut b = header(tr, ptype);
    b.put(1, 1); // COD = 1: not coded
    b.finish()
}

fn decode(state: &mut H263State, bytes: &[u8]) -> h263_rs::Result<()> {
    let mut reader = H263Reader::from_source(bytes);
    state.decode_next_picture(&mut reader)
}

#[test]
fn disposable_picture_with_the_references_temporal_reference_must_not_replace_it() {
    let mut state = H263State::new(DecoderOption::SORENSON_SPARK_BITSTREAM);
    // key frame, temporal reference 10, flat grey level from INTRADC 100
    decode(&mut state, &i_picture(10, 100)).expect("valid I-picture");
    let key_luma = state.get_last_picture().unwrap().as_luma().to_vec();
    // disposable picture with the SAME temporal reference (e.g. 256 pictures later: the field is 8 bits wide), other content
    decode(&mut state, &intra_p_picture(10, 2, 200)).expect("valid disposable picture");
    assert_ne!(state.get_last_picture().unwrap().as_luma(), &key_luma[..]);
    // a not-coded P picture is a copy of the reference picture = the key frame, not the disposable picture
    decode(&mut state, &skipped_p_picture(12, 1)).expect("valid P-picture");
    assert_eq!(state.get_last_picture().unwrap().as_luma(), &key_luma[..],
        "the P-picture was predicted from the disposable picture: the reference was overwritten");
}
