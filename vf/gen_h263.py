"""Generated harness instances for the h263 crate."""


def cand_name(mbw, cur):
    return "c12_candidates_w%d_mb%d" % (mbw, cur)


def cand_instance(mbw, cur):
    return ('    #[cfg_attr(kani, kani::proof)]\n    #[cfg_attr(kani, kani::unwind(10))]\n'
            '    pub fn %s() { candidates_check::<%d, %d>() }\n' % (cand_name(mbw, cur), mbw, cur))


def cand_all():
    return [(w, c) for w in (1, 2, 3) for c in range(0, 9)]
