"""Generated harness instances for the h263 crate."""


def cand_name(mbw, cur):
    return "c12_candidates_w%d_mb%d" % (mbw, cur)


def cand_instance(mbw, cur):
    return ('    #[cfg_attr(kani, kani::proof)]\n    #[cfg_attr(kani, kani::unwind(10))]\n'
            '    pub fn %s() { candidates_check::<%d, %d>() }\n' % (cand_name(mbw, cur), mbw, cur))


def cand_all():
    return [(w, c) for w in (1, 2, 3) for c in range(0, 9)]


MODEL_STUBS = ('    #[cfg_attr(kani, kani::stub(crate::parser::reader::H263Reader::peek_bits, crate::parser::reader::H263Reader::peek_bits_model))]\n'
               '    #[cfg_attr(kani, kani::stub(crate::parser::reader::H263Reader::skip_bits, crate::parser::reader::H263Reader::skip_bits_model))]\n'
               '    #[cfg_attr(kani, kani::stub(crate::parser::reader::H263Reader::rollback, crate::parser::reader::H263Reader::rollback_model))]\n'
               '    #[cfg_attr(kani, kani::stub(crate::parser::reader::H263Reader::commit, crate::parser::reader::H263Reader::commit_model))]\n')


def hdr_sorenson_name(phase):
    return "c06_sorenson_p%d" % phase


def hdr_sorenson(phase, unwind=11):
    return ('    #[cfg_attr(kani, kani::proof)]\n    #[cfg_attr(kani, kani::unwind(%d))]\n%s'
            '    pub fn %s() { sorenson_check::<%d>() }\n' % (unwind, MODEL_STUBS, hdr_sorenson_name(phase), phase))


def hdr_std_name(phase, kind, scal, prev):
    return "c06_std_k%d_p%d_%s_%s" % (kind, phase, "scal" if scal else "noscal", "prev" if prev else "first")


def hdr_std(phase, kind, scal, prev, unwind=11):
    return ('    #[cfg_attr(kani, kani::proof)]\n    #[cfg_attr(kani, kani::unwind(%d))]\n%s'
            '    pub fn %s() { standard_check::<%d, %d, %s, %s>() }\n' % (unwind, MODEL_STUBS, hdr_std_name(phase, kind, scal, prev), phase, kind,
                                                                       "true" if scal else "false", "true" if prev else "false"))


TOTAL_STUBS = MODEL_STUBS.replace("peek_bits_model", "peek_bits_total").replace("skip_bits_model", "skip_bits_total")
CORE_STUBS = TOTAL_STUBS + (
    '    #[cfg_attr(kani, kani::stub(crate::Error::is_eof_error, crate::decoder::state::verif_state::is_eof_sentinel))]\n' +
    '    #[cfg_attr(kani, kani::stub(f32::ceil, crate::decoder::state::verif_state::ceil32_model))]\n'
    '    #[cfg_attr(kani, kani::stub(crate::decoder::cpu::mvd_pred::predict_candidate, crate::decoder::state::verif_state::predict_candidate_stub))]\n'
    '    #[cfg_attr(kani, kani::stub(crate::decoder::cpu::mvd_pred::mv_decode, crate::decoder::state::verif_state::mv_decode_stub))]\n'
    '    #[cfg_attr(kani, kani::stub(crate::decoder::cpu::rle::inverse_rle, crate::decoder::state::verif_state::inverse_rle_contract))]\n'
    '    #[cfg_attr(kani, kani::stub(crate::decoder::cpu::gather::gather, crate::decoder::state::verif_state::gather_contract))]\n'
    '    #[cfg_attr(kani, kani::stub(crate::decoder::cpu::idct::idct_channel, crate::decoder::state::verif_state::idct_channel_contract))]\n')

HDR_BYTES, MB_STRIDE = 16, 24 + 6 * 8


MB_BYTES, BLK_BYTES = 24, 8

# record kinds (see harness/h263/src/decoder/state.rs.inc: producers)
H_OK, H_NONE = 0, 1
M_CODED, M_UNCODED, M_STUFF = 0, 1, 2          # 3 + c = Err(code c); code 0 = end of data
ERR_NAMES = ["Eof", "Internal", "MiddleOfBitstream", "InvalidMacroblockHeader", "InvalidMacroblockCodedBits", "InvalidIntraDc", "InvalidShortCoefficient",
             "InvalidLongCoefficient", "InvalidMvd", "InvalidPType", "InvalidPlusPType", "InvalidGobHeader", "InvalidBitstream", "PictureFormatMissing",
             "PictureFormatInvalid", "Unimplemented"]


class Scenario:
    """structure of one decode call: header kind, macroblock record kinds, optional failing block, optional GOB answers"""

    def __init__(self, hk=H_OK, mbs=(), blk_err=None, gob=None, tag="", pt=None, fk=None):
        self.hk, self.mbs, self.blk_err, self.gob, self.tag = hk, list(mbs), blk_err, gob or {}, tag
        self.pt, self.fk = pt, fk     # picture type code / format kind (None = symbolic)

    def nbytes(self):
        return HDR_BYTES + len(self.mbs) * MB_STRIDE

    def writes(self):
        w = [(0, self.hk)]
        if self.pt is not None:
            w.append((2, self.pt))
        if self.fk is not None:
            w.append((3, self.fk))
        for i, k in enumerate(self.mbs):
            base = HDR_BYTES + i * MB_STRIDE
            ty = None
            if isinstance(k, tuple):
                k, ty = k
            w.append((base, k))
            if ty is not None:
                w.append((base + 1, ty))
            for j in range(6):
                code = 0
                if self.blk_err and self.blk_err[0] == i and self.blk_err[1] == j:
                    code = 1 + self.blk_err[2]
                w.append((base + MB_BYTES + j * BLK_BYTES, code))
            if i in self.gob:
                w.append((base + 8, self.gob[i][0]))
                w.append((base + 9, self.gob[i][1]))
        return w

    def describe(self):
        def mk(k):
            if isinstance(k, tuple):
                return "coded:" + ["INTER", "INTER+Q", "INTER4V", "INTRA", "INTRA+Q", "INTER4V+Q"][k[1] % 6]
            return {0: "coded(any type)", 1: "not-coded", 2: "stuffing"}.get(k, "Err(%s)" % ERR_NAMES[(k - 3) % 16])
        d = "type=%s format=%s " % ({None: "any", 0: "I", 1: "P", 2: "disposable"}.get(self.pt, self.pt), {None: "any", 0: "inherited", 7: "custom"}.get(self.fk, self.fk))
        d += "header=%s; macroblocks=[%s]" % ({0: "ok", 1: "gob"}.get(self.hk, "Err(%s)" % ERR_NAMES[(self.hk - 2) % 16]), ", ".join(mk(k) for k in self.mbs))
        if self.blk_err:
            d += "; block %d of macroblock %d fails with %s" % (self.blk_err[1], self.blk_err[0], ERR_NAMES[self.blk_err[2] % 16])
        if self.gob:
            d += "; gob answers %s" % self.gob
        return d


def core_c1_name(cls, shape, idx):
    return "core_g%d_s%d_%03d" % (cls, shape, idx)


CORE_STUBS_Q = CORE_STUBS.replace("verif_state::idct_channel_contract)", "verif_state::idct_channel_contract_q)")


def core_c1(cls, shape, idx, sc, max_mbs=None, excl=False, qobs=False):
    n = sc.nbytes()
    unwind = max(len(sc.mbs) + 3, 4 * cls * cls + 2, 6)
    body = "        let mut script: [u8; %d] = nd();\n" % n
    for off, val in sc.writes():
        body += "        script[%d] = %d;\n" % (off, val)
    if excl:
        body += "        step_c1x::<%d, %d, %d, true, false>(script);\n" % (cls, n, shape)
    elif qobs:
        body += "        step_c1q::<%d, %d, %d>(script);\n" % (cls, n, shape)
    else:
        body += "        step_c1::<%d, %d, %d>(script);\n" % (cls, n, shape)
    return ('    /// %s\n    #[cfg_attr(kani, kani::proof)]\n    #[cfg_attr(kani, kani::unwind(%d))]\n%s'
            '    #[cfg_attr(kani, kani::stub(f64::ceil, crate::decoder::state::verif_state::ceil64_class%d))]\n'
            '    pub fn %s() {\n%s    }\n' % (sc.describe(), unwind, CORE_STUBS_Q if qobs else CORE_STUBS, cls, core_c1_name(cls, shape, idx) + ("_x" if excl else ""), body))


def core_zero_name(w, h, shape):
    return "core_zero_%dx%d_s%d" % (w, h, shape)


def core_zero(w, h, shape):
    sc = Scenario(H_OK, [M_CODED, 3])
    n = sc.nbytes()
    body = "        let mut script: [u8; %d] = nd();\n" % n
    for off, val in sc.writes():
        body += "        script[%d] = %d;\n" % (off, val)
    body += "        step_zero::<%d, %d, %d, %d>(script);\n" % (w, h, n, shape)
    return ('    #[cfg_attr(kani, kani::proof)]\n    #[cfg_attr(kani, kani::unwind(8))]\n%s'
            '    #[cfg_attr(kani, kani::stub(f64::ceil, crate::decoder::state::verif_state::ceil64_small))]\n'
            '    pub fn %s() {\n%s    }\n' % (CORE_STUBS, core_zero_name(w, h, shape), body))


def gblock_name(w, h, px, py, mx0=None):
    return "c03_gather_block_%dx%d_at_%d_%d" % (w, h, px, py) + ("" if mx0 is None else "_mx%s%d" % ("m" if mx0 < 0 else "p", abs(mx0)))


def gblock_range(w, h, big):
    # half samples: beyond every edge by more than the plane size for the tiny planes; a window around zero otherwise
    if big:
        return (3, 3)
    return (min(2 * (w + 1) + 1, 7), min(2 * (h + 1) + 1, 7))


def gblock_slices(w, h, px, py):
    """[(mx0, mx1, ry)]: the x window cut into slices of 3 values"""
    big = (w, h, px, py) in gblock_big()
    rx, ry = gblock_range(w, h, big)
    step = 2 if big else 3
    return [(m, min(m + step - 1, rx), ry) for m in range(-rx, rx + 1, step)]


def gblock(w, h, px, py, mx0, mx1, ry):
    return ('    #[cfg_attr(kani, kani::proof)]\n    #[cfg_attr(kani, kani::unwind(%d))]\n'
            '    pub fn %s() { block_check::<%d, %d, %d, %d, %d, %d, %d, %d>() }\n' % (max(2 * ry + 3, 10), gblock_name(w, h, px, py, mx0), w, h, w * h, px, py, mx0, mx1, ry))


def gblock_small():
    # tiny planes: every interpolation mode and every edge clamp with few samples per block (cheap)
    return [(1, 1, 0, 0), (3, 2, 0, 0), (2, 3, 0, 0), (9, 5, 8, 0), (5, 9, 0, 8), (3, 3, 8, 0)]


def gblock_big():
    # full 8x8 blocks incl. the copy fast path (expensive: 64 samples x symbolic reference indices)
    return [(8, 8, 0, 0), (16, 8, 8, 0), (16, 16, 8, 8), (17, 9, 16, 8)]


def gblock_all():
    return gblock_small() + gblock_big()


def idct_name(kind, w, h, bi=None):
    return "c02_idct_%s_%dx%d" % (kind, w, h) + ("_b%d" % bi if bi is not None else "")


def idct_dims(w, h):
    # the decoder rounds the level array up to whole macroblocks: blocks beyond the frame exist
    return ((w + 15) // 16) * 2, ((h + 15) // 16) * 2


def idct_inst(kind, w, h, bi=None):
    bw2, bh2 = idct_dims(w, h)
    if kind == "dc":
        return ('    #[cfg_attr(kani, kani::proof)]\n    #[cfg_attr(kani, kani::unwind(%d))]\n'
                '    pub fn %s() { dc_check::<%d, %d, %d, %d, %d, %d, %d>() }\n' % (max(9, bw2 * bh2 + 1), idct_name(kind, w, h, bi), w, h, w * h, bw2, bh2, bw2 * bh2, bi))
    return "".join('    #[cfg_attr(kani, kani::proof)]\n    #[cfg_attr(kani, kani::unwind(%d))]\n'
                   '    pub fn %s() { contract_check::<%d, %d, %d, %d, %d, %d, %d, %d>() }\n' % (max(9, bw2 * bh2 + 1), n, w, h, w * h, bw2, bh2, bw2 * bh2, b, v)
                   for (n, b, v) in idct_contract_instances(w, h))


def idct_contract_instances(w, h):
    """[(harness name, block index, variant)]: variants 1 Dc, 2 Horiz, 3 Vert, 4 Full at the block that holds the last (cropped) sample"""
    bw2, bh2 = idct_dims(w, h)
    last_in = ((h - 1) // 8) * bw2 + (w - 1) // 8
    out = [("c02_idct_contract_%dx%d_b%d_v%d" % (w, h, last_in, v), last_in, v) for v in (2, 3, 4)]
    out.append(("c02_idct_contract_%dx%d_b%d_v%d" % (w, h, bw2 * bh2 - 1, 4), bw2 * bh2 - 1, 4))
    return sorted(set(out))


def idct_dc_blocks(w, h):
    """block indices worth a harness: first, the one holding the last sample (cropped), one wholly outside the frame"""
    bw2, bh2 = idct_dims(w, h)
    last_in = ((h - 1) // 8) * bw2 + (w - 1) // 8
    out = {0, last_in, bw2 * bh2 - 1}
    return sorted(out)


def idct_sizes():
    return [(1, 1), (8, 8), (5, 3), (16, 16), (17, 9), (9, 17)]


def c17_name(cls, shape, idx):
    return "c17_two_instances_g%d_s%d_%02d" % (cls, shape, idx)


def c17(cls, shape, idx, sca, scb):
    n = max(sca.nbytes(), scb.nbytes())
    body = "        let mut script_a: [u8; %d] = nd();\n        let mut script_b: [u8; %d] = nd();\n" % (n, n)
    for off, val in sca.writes():
        body += "        script_a[%d] = %d;\n" % (off, val)
    for off, val in scb.writes():
        body += "        script_b[%d] = %d;\n" % (off, val)
    body += "        two_instances::<%d, %d, %d>(script_a, script_b);\n" % (cls, n, shape)
    return ('    /// A: %s | B: %s\n    #[cfg_attr(kani, kani::proof)]\n    #[cfg_attr(kani, kani::unwind(%d))]\n%s'
            '    #[cfg_attr(kani, kani::stub(f64::ceil, crate::decoder::state::verif_state::ceil64_class%d))]\n'
            '    pub fn %s() {\n%s    }\n' % (sca.describe(), scb.describe(), max(len(sca.mbs), len(scb.mbs)) + 4, CORE_STUBS, cls, c17_name(cls, shape, idx), body))


# ---- parser layer ------------------------------------------------------------------------------------------------
PICK = '    #[cfg_attr(kani, kani::stub(crate::parser::reader::H263Reader::read_vlc, crate::parser::reader::H263Reader::read_vlc_pick))]\n'


def pmb_name(n, pt, umv):
    return "c01_parse_mb_%dB_%s%s" % (n, ["I", "P", "D"][pt], "_umv" if umv else "")


def pmb(n, pt, umv):
    return ('    #[cfg_attr(kani, kani::proof)]\n    #[cfg_attr(kani, kani::unwind(4))]\n%s'
            '    pub fn %s() { mb_contract::<%d, %d, %s>() }\n' % (MODEL_STUBS + PICK, pmb_name(n, pt, umv), n, pt, "true" if umv else "false"))


def pdisp_name(n):
    return "c04_disposable_mb_syntax_%dB" % n


def pdisp(n):
    return ('    #[cfg_attr(kani, kani::proof)]\n    #[cfg_attr(kani, kani::unwind(6))]\n%s'
            '    pub fn %s() { disposable_like_p::<%d>() }\n' % (MODEL_STUBS + PICK, pdisp_name(n), n))


def pumv_name(n):
    return "c01_parse_umv_%dB" % n


def pumv(n):
    return ('    #[cfg_attr(kani, kani::proof)]\n    #[cfg_attr(kani, kani::unwind(4))]\n%s'
            '    pub fn %s() { umv_contract::<%d>() }\n' % (MODEL_STUBS, pumv_name(n), n))


def pblk_name(n, mode, intra):
    return "c01_parse_block_%dB_%s_%s" % (n, ["std", "sor0", "sor1"][mode], "intra" if intra else "inter")


def pblk(n, mode, intra, unwind):
    return ('    #[cfg_attr(kani, kani::proof)]\n    #[cfg_attr(kani, kani::unwind(%d))]\n%s'
            '    pub fn %s() { block_contract::<%d, %d, %s>() }\n' % (unwind, MODEL_STUBS + PICK, pblk_name(n, mode, intra), n, mode, "true" if intra else "false"))


def walk_name(table):
    return "c01_vlc_walk_" + table.lower()


def walk(table, depth, module_table_path):
    return ('    #[cfg_attr(kani, kani::proof)]\n    #[cfg_attr(kani, kani::unwind(%d))]\n%s'
            '    pub fn %s() { %s(&%s[..], %d) }\n' % (depth + 2, MODEL_STUBS, walk_name(table), "walk" if "TCOEF" not in table else "crate::parser::macroblock::verif_mb::walk", module_table_path, depth))


# ---- callee side of the gather contract ----------------------------------------------------------------------------
def gsize_name(rw, rh, nw, nh):
    return "c01_gather_ref%dx%d_new%dx%d" % (rw, rh, nw, nh)


def gsize(rw, rh, nw, nh):
    return ('    #[cfg_attr(kani, kani::proof)]\n    #[cfg_attr(kani, kani::unwind(9))]\n'
            '    #[cfg_attr(kani, kani::stub(f32::ceil, crate::decoder::cpu::gather::verif_gather::ceil32_model))]\n'
            '    pub fn %s() { gather_sizes_check::<%d, %d, %d, %d>() }\n' % (gsize_name(rw, rh, nw, nh), rw, rh, nw, nh))


def gsize_all():
    return [(16, 16, 16, 16), (16, 16, 16, 8), (8, 8, 16, 16), (16, 32, 16, 16), (16, 16, 8, 8), (1, 1, 16, 16), (16, 16, 1, 1), (17, 9, 9, 17), (5, 3, 5, 3), (1, 1, 1, 1), (16, 8, 16, 16)]


def c17_hdr():
    # unwind 31: a 256-bit stream holds at most 28 extra-information bytes, whatever position the loop starts at
    return ('    #[cfg_attr(kani, kani::proof)]\n    #[cfg_attr(kani, kani::unwind(31))]\n%s'
            '    pub fn c17_header_parse_independent() { parse_independent() }\n' % MODEL_STUBS)
