"""Generated harness instances for the h263 crate."""


def cand_name(mbw, cur):
    return "c12_candidates_w%d_mb%d" % (mbw, cur)


def cand_instance(mbw, cur):
    return ('    #[cfg_attr(kani, kani::proof)]\n    #[cfg_attr(kani, kani::unwind(10))]\n'
            '    pub fn %s() { candidates_check::<%d, %d>() }\n' % (cand_name(mbw, cur), mbw, cur))


def cand_all():
    return [(w, c) for w in (1, 2, 3) for c in range(0, 9)]


MODEL_STUBS = ('    #[cfg_attr(kani, kani::stub(crate::parser::reader::H263Reader::peek_bits, crate::parser::reader::H263Reader::peek_bits_model))]\n'
               '    #[cfg_attr(kani, kani::stub(crate::parser::reader::H263Reader::skip_bits, crate::parser::reader::H263Reader::skip_bits_model))]\n'
               '    #[cfg_attr(kani, kani::stub(crate::parser::reader::H263Reader::rollback, crate::parser::reader::H263Reader::rollback_model))]\n'
               '    #[cfg_attr(kani, kani::stub(crate::parser::reader::H263Reader::commit, crate::parser::reader::H263Reader::commit_model))]\n')


def hdr_sorenson_name(phase):
    return "c06_sorenson_p%d" % phase


def hdr_sorenson(phase, unwind=11):
    return ('    #[cfg_attr(kani, kani::proof)]\n    #[cfg_attr(kani, kani::unwind(%d))]\n%s'
            '    pub fn %s() { sorenson_check::<%d>() }\n' % (unwind, MODEL_STUBS, hdr_sorenson_name(phase), phase))


def hdr_std_name(phase, kind, scal, prev):
    return "c06_std_k%d_p%d_%s_%s" % (kind, phase, "scal" if scal else "noscal", "prev" if prev else "first")


def hdr_std(phase, kind, scal, prev, unwind=11):
    return ('    #[cfg_attr(kani, kani::proof)]\n    #[cfg_attr(kani, kani::unwind(%d))]\n%s'
            '    pub fn %s() { standard_check::<%d, %d, %s, %s>() }\n' % (unwind, MODEL_STUBS, hdr_std_name(phase, kind, scal, prev), phase, kind,
                                                                       "true" if scal else "false", "true" if prev else "false"))


CORE_STUBS = MODEL_STUBS + (
    '    #[cfg_attr(kani, kani::stub(f32::ceil, crate::decoder::state::verif_state::ceil32_model))]\n'
    '    #[cfg_attr(kani, kani::stub(crate::decoder::cpu::rle::inverse_rle, crate::decoder::state::verif_state::inverse_rle_contract))]\n'
    '    #[cfg_attr(kani, kani::stub(crate::decoder::cpu::gather::gather, crate::decoder::state::verif_state::gather_contract))]\n'
    '    #[cfg_attr(kani, kani::stub(crate::decoder::cpu::idct::idct_channel, crate::decoder::state::verif_state::idct_channel_contract))]\n')

HDR_BYTES, MB_STRIDE = 16, 24 + 6 * 8


def core_c1_name(cls, nmb, shape):
    return "c01_core_g%d_mb%d_s%d" % (cls, nmb, shape)


def core_c1(cls, nmb, shape):
    n = HDR_BYTES + nmb * MB_STRIDE
    unwind = max(nmb + 3, 4 * cls * cls + 2, 6)
    return ('    #[cfg_attr(kani, kani::proof)]\n    #[cfg_attr(kani, kani::unwind(%d))]\n%s'
            '    #[cfg_attr(kani, kani::stub(f64::ceil, crate::decoder::state::verif_state::ceil64_class%d))]\n'
            '    pub fn %s() { step_c1::<%d, %d, %d, %d>() }\n' % (unwind, CORE_STUBS, cls, core_c1_name(cls, nmb, shape), cls, nmb, n, shape))


def core_zero_name(w, h):
    return "c01_core_zero_%dx%d" % (w, h)


def core_zero(w, h, nmb=1):
    n = HDR_BYTES + nmb * MB_STRIDE
    return ('    #[cfg_attr(kani, kani::proof)]\n    #[cfg_attr(kani, kani::unwind(8))]\n%s'
            '    #[cfg_attr(kani, kani::stub(f64::ceil, crate::decoder::state::verif_state::ceil64_model))]\n'
            '    pub fn %s() { step_zero::<%d, %d, %d>() }\n' % (CORE_STUBS, core_zero_name(w, h), w, h, n))


def gblock_name(w, h, px, py):
    return "c03_gather_block_%dx%d_at_%d_%d" % (w, h, px, py)


def gblock(w, h, px, py):
    return ('    #[cfg_attr(kani, kani::proof)]\n    #[cfg_attr(kani, kani::unwind(9))]\n'
            '    pub fn %s() { block_check::<%d, %d, %d, %d, %d>() }\n' % (gblock_name(w, h, px, py), w, h, w * h, px, py))


def gblock_all():
    out = []
    for (w, h) in ((1, 1), (8, 8), (9, 5), (16, 16), (17, 9)):
        for px in range(0, w + 8, 8):
            for py in range(0, h + 8, 8):
                if px < w + 8 and py < h + 8:
                    out.append((w, h, px, py))
    return out


def idct_name(kind, w, h):
    return "c02_idct_%s_%dx%d" % (kind, w, h)


def idct_inst(kind, w, h):
    bw, bh = (w + 7) // 8, (h + 7) // 8
    # the decoder rounds the level array up to whole macroblocks: blocks beyond the frame exist
    bw2, bh2 = ((w + 15) // 16) * 2, ((h + 15) // 16) * 2
    fn = "dc_check" if kind == "dc" else "contract_check"
    return ('    #[cfg_attr(kani, kani::proof)]\n    #[cfg_attr(kani, kani::unwind(%d))]\n'
            '    pub fn %s() { %s::<%d, %d, %d, %d, %d, %d>() }\n' % (max(9, bw2 * bh2 + 1), idct_name(kind, w, h), fn, w, h, w * h, bw2, bh2, bw2 * bh2))


def idct_sizes():
    return [(1, 1), (8, 8), (5, 3), (16, 16), (17, 9), (9, 17)]
