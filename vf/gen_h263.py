"""Generated harness instances for the h263 crate."""


def cand_name(mbw, cur):
    return "c12_candidates_w%d_mb%d" % (mbw, cur)


def cand_instance(mbw, cur):
    return ('    #[cfg_attr(kani, kani::proof)]\n    #[cfg_attr(kani, kani::unwind(10))]\n'
            '    pub fn %s() { candidates_check::<%d, %d>() }\n' % (cand_name(mbw, cur), mbw, cur))


def cand_all():
    return [(w, c) for w in (1, 2, 3) for c in range(0, 9)]


MODEL_STUBS = ('    #[cfg_attr(kani, kani::stub(crate::parser::reader::H263Reader::peek_bits, crate::parser::reader::H263Reader::peek_bits_model))]\n'
               '    #[cfg_attr(kani, kani::stub(crate::parser::reader::H263Reader::skip_bits, crate::parser::reader::H263Reader::skip_bits_model))]\n'
               '    #[cfg_attr(kani, kani::stub(crate::parser::reader::H263Reader::rollback, crate::parser::reader::H263Reader::rollback_model))]\n'
               '    #[cfg_attr(kani, kani::stub(crate::parser::reader::H263Reader::commit, crate::parser::reader::H263Reader::commit_model))]\n')


def hdr_sorenson_name(phase):
    return "c06_sorenson_p%d" % phase


def hdr_sorenson(phase, unwind=11):
    return ('    #[cfg_attr(kani, kani::proof)]\n    #[cfg_attr(kani, kani::unwind(%d))]\n%s'
            '    pub fn %s() { sorenson_check::<%d>() }\n' % (unwind, MODEL_STUBS, hdr_sorenson_name(phase), phase))


def hdr_std_name(phase, kind, scal, prev):
    return "c06_std_k%d_p%d_%s_%s" % (kind, phase, "scal" if scal else "noscal", "prev" if prev else "first")


def hdr_std(phase, kind, scal, prev, unwind=11):
    return ('    #[cfg_attr(kani, kani::proof)]\n    #[cfg_attr(kani, kani::unwind(%d))]\n%s'
            '    pub fn %s() { standard_check::<%d, %d, %s, %s>() }\n' % (unwind, MODEL_STUBS, hdr_std_name(phase, kind, scal, prev), phase, kind,
                                                                       "true" if scal else "false", "true" if prev else "false"))
