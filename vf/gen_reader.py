"""C14: generated operation sequences for the real bit reader (structure concrete, source bytes symbolic).

FIXED operations leave a position that does not depend on the data, so they can be chained; DD (data dependent)
operations - VLC walks and start-code searches, whose loop exits depend on the data - make every later buffer shape
symbolic, which CBMC does not survive (DESIGN.md probe log), so they are generated as the last operation of a
sequence only and are followed by the state check `finish_state` instead of a further read."""
import random

FIXED = []
for n in (1, 9, 17, 32):
    FIXED.append(("peek_u32", (n,)))
for n in (0, 1, 3, 7, 8, 9, 13, 17, 23, 32):
    FIXED.append(("read_u32", (n,)))
for n in (1, 8, 9):
    FIXED.append(("read_u8b", (n,)))
for n in (9, 16, 17):
    FIXED.append(("read_u16", (n,)))
FIXED += [("peek_u16", (13,)), ("peek_u8", (7,))]
for n in (3, 8):
    FIXED.append(("read_s_u8", (n,)))
for n in (1, 7, 8, 11, 16):
    FIXED.append(("read_s_i16", (n,)))
for n in (13, 23, 32):
    FIXED.append(("read_s_i32", (n,)))
FIXED += [("peek_s_i16", (11,)), ("read_s_u32", (23,)), ("peek_s_u8", (8,)), ("peek_s_i32", (32,)), ("peek_s_u32", (1,))]
for n in (0, 1, 7, 8, 9, 17):
    FIXED.append(("skip", (n,)))
FIXED += [("read_byte", ()), ("txn_ok", (3, 8)), ("txn_ok", (9, 17))]
for n in (1, 9, 17):
    FIXED.append(("txn_fail", (n,)))
FIXED += [("union_none", (9,)), ("union_some", (13,))]
for n in (1, 17, 32):
    FIXED.append(("lookahead", (n,)))
FIXED += [("commit", ())]

DD = [("vlc", ()), ("vlc_fixed", (1,)), ("vlc_fixed", (2,)), ("vlc_bad_table", ()), ("txn_fail_vlc", (1,)), ("txn_fail_vlc", (9,)),
      ("start_code", ()), ("start_code_resync", ())]
SYMS = FIXED + DD

# prefixes that bring the reader into every buffer fill level (b bytes retained, q bits consumed), with and without commits
PREFIXES = [
    [],
    [("lookahead", (1,))],
    [("lookahead", (17,))],
    [("lookahead", (32,))],
    [("lookahead", (32,)), ("skip", (16,)), ("lookahead", (32,))],
    [("read_u32", (13,)), ("commit", ())],
    [("lookahead", (32,)), ("skip", (20,)), ("commit", ())],
    [("read_u32", (32,)), ("read_u32", (7,))],
]

WIDTHS_ALL = list(range(0, 33))


def op_src(op):
    name, args = op
    return "%s(&mut r, &mut m%s);" % (name, "".join(", %d" % a for a in args))


def seq_src(phase, ops, length):
    body = "        {\n            let mut r = H263Reader::from_source(&src[..]);\n            let mut m = M::new(&src);\n"
    if phase:
        body += "            skip(&mut r, &mut m, %d);\n" % phase
    for op in ops:
        body += "            " + op_src(op) + "\n"
    if ops and ops[-1] in DD:
        body += "            finish_state(&mut r, &mut m, &src);\n"
    else:
        body += "            finish(&mut r, &mut m);\n"
    body += "            core::mem::forget(r);\n        }\n"
    return body


def harness_src(name, length, seqs, unwind):
    s = "    #[cfg_attr(kani, kani::proof)]\n    #[cfg_attr(kani, kani::unwind(%d))]\n    pub fn %s() {\n        let src: [u8; %d] = nd();\n" % (unwind, name, length)
    for (phase, ops) in seqs:
        s += seq_src(phase, ops, length)
    s += "        crate::vcover!(true, \"all sequences of the harness ran to their end\");\n        vs::done();\n    }\n"
    return s


def needs_big_unwind(seqs):
    return any(op[0] == "start_code_resync" for (_, ops) in seqs for op in ops)


def describe(phase, ops):
    return "skip %d; " % phase + "; ".join("%s(%s)" % (o[0], ",".join(map(str, o[1]))) for o in ops)


def build(tier, seed, per_harness=4):
    """returns list of (harness_name, src_len, [(phase, ops)], unwind)"""
    rnd = random.Random(1000 + seed)
    th = tier == "thorough"
    seqs = []   # (len, phase, ops)
    # 1. skip p; read n for all phases and all widths 0..32 (exhaustive in thorough)
    for p in range(8):
        for n in (WIDTHS_ALL if th else rnd.sample(WIDTHS_ALL, 2)):
            seqs.append((6, p, [("read_u32", (n,))]))
    # 1b. start-code recognition at every phase (the stuffing window is widest at phase 1); quick: the two extreme phases
    for p in (range(8) if th else (0, 1)):
        seqs.append((6, p, [("start_code", ())]))
    for p in (range(8) if th else (rnd.randrange(8),)):
        seqs.append((6, p, [("start_code_resync", ())]))
    # 1c. commit exactly at byte boundaries (and just beside them)
    for (p, n) in ((0, 8), (0, 16), (3, 13), (0, 7), (1, 8)):
        seqs.append((6, p, [("read_u32", (n,)), ("commit", ()), ("read_u32", (9,))]))
    # 2. one step from every buffer fill level: prefix x phase x every symbol
    steps = [(pre, p, s) for pre in PREFIXES for p in range(8) for s in SYMS]
    steps = rnd.sample(steps, len(steps) // 6 if th else 28)
    for pre, p, s in steps:
        seqs.append((6, p, pre + [s]))
    # 3. ordered pairs of fixed operations followed by a third symbol
    pairs = [(a, b) for a in FIXED for b in FIXED]
    for (a, b) in rnd.sample(pairs, 300 if th else 10):
        c = rnd.choice(SYMS)
        seqs.append((6, rnd.randrange(8), [a, b] + ([c] if rnd.random() < 0.5 else [])))
    # 4. random longer sequences (length 3..6)
    for i in range(80 if th else 4):
        k = rnd.randint(3, 6)
        seqs.append((6, rnd.randrange(8), [rnd.choice(FIXED) for _ in range(k - 1)] + [rnd.choice(SYMS)]))
    # 5. short sources: end-of-data straddling (lengths 0..5)
    for L in range(0, 6):
        cands = [("read_u32", (n,)) for n in (1, 8, 9, 17, 32)] + [("skip", (9,)), ("read_byte", ()), ("lookahead", (17,)), ("txn_fail", (9,)),
                 ("txn_ok", (9, 17)), ("read_s_i16", (11,)), ("peek_u32", (32,)), ("union_some", (13,))]
        for i in range(len(cands) if th else 2):
            op = cands[i] if th else rnd.choice(cands)
            p = rnd.randrange(8) if L > 0 else 0
            seqs.append((L, min(p, L * 8), [op, rnd.choice(cands + DD)]))
        for d in (DD if th else rnd.sample(DD, 1)):
            seqs.append((L, min(rnd.randrange(8), L * 8), [d]))
    # pack into harnesses (same source length per harness; data-dependent endings get a harness of their own kind)
    out = []
    groups = {}
    for s in seqs:
        key = (s[0], "dd" if (s[2] and s[2][-1] in DD) else "fx", needs_big_unwind([(s[1], s[2])]))
        groups.setdefault(key, []).append(s)
    idx = 0
    for key in sorted(groups):
        lst = groups[key]
        per = 2 if key[1] == "dd" else per_harness
        for i in range(0, len(lst), per):
            chunk = [(p, ops) for (_, p, ops) in lst[i:i + per]]
            unwind = 50 if key[2] else 12
            out.append(("c14_seq_%04d" % idx, key[0], chunk, unwind))
            idx += 1
    return out
