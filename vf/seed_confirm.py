#!/usr/bin/env python3
"""Confirm a sub-agent mutation in its scratch worktree and store it under /verif/seeded/<name>/.
usage: seed_confirm.py <worktree> <mutdir> <name> <property> <placement> <demo cmd...>
placement: 'file:<relpath>' (copy demo.rs there) or 'append:<relpath>' (append demo.rs to that source file)"""
import json, os, shutil, subprocess, sys, time

wt, mutdir, name, prop, placement = sys.argv[1:6]
cmd = sys.argv[6:]
VERIF = os.path.dirname(os.path.dirname(os.path.abspath(__file__)))


def run(c, cwd=wt, timeout=1800):
    p = subprocess.run(c, cwd=cwd, capture_output=True, text=True, timeout=timeout)
    return p.returncode, (p.stdout + p.stderr)


def place():
    kind, rel = placement.split(":", 1)
    dst = os.path.join(wt, rel)
    if kind == "file":
        os.makedirs(os.path.dirname(dst), exist_ok=True)
        shutil.copy(os.path.join(mutdir, "demo.rs"), dst)
        return ("rm", dst)
    else:
        orig = open(dst).read()
        with open(dst, "a") as f:
            f.write("\n" + open(os.path.join(mutdir, "demo.rs")).read())
        return ("restore", dst, orig)


def unplace(tok):
    if tok[0] == "rm":
        os.remove(tok[1])
        d = os.path.dirname(tok[1])
        if os.path.basename(d) == "tests" and not os.listdir(d):
            os.rmdir(d)
    else:
        open(tok[1], "w").write(tok[2])


res = {"property": prop, "name": name, "ran": []}
run(["git", "checkout", "--", "."])
rc, out = run(["git", "apply", os.path.join(mutdir, "patch.diff")])
assert rc == 0, out
rc, out = run(["cargo", "test", "--workspace", "--offline"])
res["suite_with_patch"] = "pass" if rc == 0 else "FAIL"
res["ran"].append("git apply patch.diff && cargo test --workspace --offline -> rc=%d" % rc)
tok = place()
rc, out = run(cmd)
res["demo_with_patch"] = "fails" if rc != 0 else "PASSES"
res["ran"].append(" ".join(cmd) + " (patched) -> rc=%d" % rc)
unplace(tok)
run(["git", "checkout", "--", "."])
tok = place()
rc, out = run(cmd)
res["demo_without_patch"] = "passes" if rc == 0 else "FAILS"
res["ran"].append(" ".join(cmd) + " (unpatched) -> rc=%d" % rc)
unplace(tok)
run(["git", "checkout", "--", "."])
ok = res["suite_with_patch"] == "pass" and res["demo_with_patch"] == "fails" and res["demo_without_patch"] == "passes"
res["confirmed"] = ok
print(json.dumps(res, indent=1))
if ok:
    d = os.path.join(VERIF, "seeded", name)
    os.makedirs(d, exist_ok=True)
    shutil.copy(os.path.join(mutdir, "patch.diff"), d)
    shutil.copy(os.path.join(mutdir, "demo.rs"), d)
    shutil.copy(os.path.join(mutdir, "notes.md"), d)
    notes = open(os.path.join(mutdir, "notes.md")).read()
    meta = {"breaks_property": prop, "demo_placement": placement, "demo_cmd": " ".join(cmd), "confirmed_in_scratch_worktree": res,
            "needs_to_manifest": "see notes.md", "checks_run": []}
    json.dump(meta, open(os.path.join(d, "meta.json"), "w"), indent=1)
sys.exit(0 if ok else 1)
