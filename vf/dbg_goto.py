#!/usr/bin/env python3
"""debug helper: rebuild the linked goto binary of one harness inside a kept scratch dir; prints its path"""
import sys, json, os, glob, subprocess
root, harness = sys.argv[1], sys.argv[2]
KLIB = os.path.expanduser("~/.kani/kani-0.68.0/library/kani/kani_lib.c")
mds = sorted(glob.glob(root + "/tk/**/*.kani-metadata.json", recursive=True), key=os.path.getmtime)
for md in reversed(mds):
    d = json.load(open(md))
    for h in d["proof_harnesses"]:
        if h["pretty_name"].endswith("::" + harness):
            g = root + "/dbg_" + harness + ".out"
            for c in (["goto-cc", h["goto_file"], KLIB, "-o", g], ["goto-cc", g, "--function", h["mangled_name"], "-o", g],
                      ["goto-instrument", "--add-library", "--no-malloc-may-fail", g, g],
                      ["goto-instrument", "--generate-function-body-options", "assert-false-assume-false", "--generate-function-body", ".*", "--drop-unused-functions", g, g],
                      ["goto-instrument", "--ensure-one-backedge-per-target", g, g]):
                subprocess.run(c, stdout=subprocess.DEVNULL, stderr=subprocess.DEVNULL, check=True)
            print(g, h["attributes"].get("unwind_value"))
            sys.exit(0)
sys.exit("not found")
