"""SMT-LIB2 side obligations (integer encoding) decided by z3 and cross-checked with cvc5.
Used where the obligation is about the *oracle* of a harness (pure integer arithmetic that CBMC's
bit-blasted multipliers do not finish), never as a substitute for running the repository's code."""
import os, re, subprocess, time

Z3 = "/usr/bin/z3"
CVC5 = "cvc5"


def run_solver(cmd, text, timeout):
    t0 = time.time()
    try:
        p = subprocess.run(cmd, input=text, capture_output=True, text=True, timeout=timeout)
        out = (p.stdout or "") + (p.stderr or "")
    except subprocess.TimeoutExpired:
        return "timeout", "", time.time() - t0
    except FileNotFoundError:
        return "missing", "", 0.0
    # (get-model) after an unsat answer legitimately reports that no model exists; anything else is an error
    cleaned = "\n".join(l for l in out.splitlines() if not re.search(r"model is not available|cannot get model|Cannot get model|expected.*SAT", l))
    if "(error" in cleaned or "error" in cleaned.lower():
        return "error", out, time.time() - t0
    toks = re.findall(r"^(sat|unsat|unknown)$", out, re.M)
    if len(toks) != 1:
        return "error", out, time.time() - t0
    return toks[0], out, time.time() - t0


def decide(text, timeout=120):
    """returns (verdict, detail): verdict 'unsat' | 'sat' | 'inconclusive'"""
    r1, o1, t1 = run_solver([Z3, "-in", "-smt2"], text, timeout)
    r2, o2, t2 = run_solver([CVC5, "--lang", "smt2", "--produce-models"], text, timeout)
    detail = {"z3": r1, "cvc5": r2, "z3_s": round(t1, 2), "cvc5_s": round(t2, 2)}
    if r1 in ("sat", "unsat") and r2 in ("sat", "unsat") and r1 != r2:
        return "inconclusive", dict(detail, why="solvers disagree")
    for r, o in ((r1, o1), (r2, o2)):
        if r == "sat":
            m = re.findall(r"\(define-fun (\w+) \(\) Int\s+\(?(-?\s?\d+)\)?\)", o)
            detail["model"] = {k: int(v.replace(" ", "")) for k, v in m}
            return "sat", detail
    if r1 == "unsat" and r2 in ("unsat", "missing", "timeout", "unknown"):
        return "unsat", detail
    if r2 == "unsat" and r1 in ("timeout", "unknown"):
        return "unsat", detail
    return "inconclusive", detail
