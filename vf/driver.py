#!/usr/bin/env python3
"""
/verif driver: solver-based checking of /repo (h263-rs) with Kani/CBMC.

  ./check <Cxx> [--tier quick|thorough] [--replay <file>] [--keep] [--only <substr>]

For one property it
  1. copies the *current working tree* of /repo to a scratch directory under
     /var/tmp, appends the harness modules of /verif/harness (plus generated
     instances) to the source files (cfg(kani) / cfg(verif_replay) only),
  2. runs every harness of the tier through `cargo kani` (CBMC + CaDiCaL),
     up to VERIF_JOBS in parallel, each under a memory and a time limit,
  3. classifies each result: holds-within-bounds / counterexample /
     inconclusive (timeout, OOM, unsupported construct, compile error),
  4. for a counterexample: extracts the witness (`--concrete-playback=print`),
     re-executes the same harness body natively (`--cfg verif_replay`) on the
     witness values against the real code and only then reports it,
  5. matches violations against /verif/known_findings.json,
  6. writes /verif/evidence/<id>.json and removes the scratch directory.

Exit codes: 0 = all obligations decided and held (known findings printed),
1 = replayed violation that is not a listed known finding (VIOLATION line),
2 = something inconclusive (never reported as success).
"""
import argparse, atexit, concurrent.futures as cf, hashlib, importlib, json, os, random, re, resource
import shutil, signal, subprocess, sys, threading, time

VERIF = os.path.dirname(os.path.dirname(os.path.abspath(__file__)))
REPO = os.environ.get("VERIF_REPO", "/repo")
HARNESS_DIR = os.path.join(VERIF, "harness")
SCRATCH_BASE = os.environ.get("VERIF_SCRATCH", "/var/tmp")
CACHE = os.path.join(VERIF, ".cache")          # dependency build cache made by setup (optional)
NJOBS = int(os.environ.get("VERIF_JOBS", "14"))
MEM_GB = int(os.environ.get("VERIF_MEM_GB", "14"))
MAX_REPLAYS = int(os.environ.get("VERIF_MAX_REPLAYS", "3"))   # counterexamples replayed natively per check run
CURRENT_PROP = [""]
PARTIAL = [False]

CRATE_OF = {"h263": "h263-rs", "yuv": "h263-rs-yuv", "deblock": "h263-rs-deblock"}
CRATE_LIB = {"h263": "h263/src/lib.rs", "yuv": "yuv/src/lib.rs", "deblock": "deblock/src/lib.rs"}


def log(*a):
    print(*a, flush=True)


# ---------------------------------------------------------------------------
class Job:
    """One solver obligation = one Kani harness instance."""

    def __init__(self, crate, harness, timeout=600, expect="pass", params=None, group="", unwindset=None,
                 allow_uncovered=(), note="", cbmc_args=None, weight=1, kind="kani", smt=None, tagged=False, unwind_by_fn=None, need_any_cover=(), kf_twin=None, is_kf_twin=False):
        self.kf_twin = kf_twin        # name of the twin harness in which the recorded known finding is assumed away
        self.is_kf_twin = is_kf_twin
        self.need_any_cover = tuple(need_any_cover)   # vacuity guard: at least one of these cover goals must be satisfied
        self.tagged = tagged          # assertions carry "[Cxx]" tags; only those of the property being checked count
        self.unwind_by_fn = unwind_by_fn or {}   # {substring of a function name: bound} -> --unwindset for the loops of that function
        self.kind = kind              # "kani" (CBMC on the compiled code) | "smt" (integer side obligation on an oracle)
        self.smt = smt
        self.crate = crate            # "h263" | "yuv" | "deblock"
        self.harness = harness        # function name (unique)
        self.timeout = timeout
        self.expect = expect          # "pass" | "fail" (vacuity twin: must come back violated)
        self.params = params or {}
        self.group = group
        self.unwindset = unwindset
        self.allow_uncovered = tuple(allow_uncovered)
        self.note = note
        self.cbmc_args = cbmc_args or []
        self.weight = weight


class Result:
    def __init__(self, job):
        self.job = job
        self.status = "inconclusive"   # pass | fail | inconclusive
        self.reason = ""
        self.failed = []               # [(description, location)]
        self.covers = {}               # description -> status
        self.n_checks = 0
        self.wall = 0.0
        self.solver_s = 0.0
        self.steps = 0
        self.vars = 0
        self.clauses = 0
        self.witness = None
        self.other_property_failures = []
        self.replay = None             # dict
        self.log = ""


# ---------------------------------------------------------------------------
class Scratch:
    def __init__(self, keep=False):
        self.root = os.path.join(SCRATCH_BASE, "h263-verif.%d" % os.getpid())
        self.repo = os.path.join(self.root, "repo")
        self.keep = keep
        self.lock = threading.Lock()
        self.slots = []
        shutil.rmtree(self.root, ignore_errors=True)
        os.makedirs(self.root)
        atexit.register(self.cleanup)
        for s in (signal.SIGTERM, signal.SIGINT, signal.SIGHUP):
            signal.signal(s, self._sig)

    def _sig(self, signum, frame):
        self.cleanup()
        os._exit(2)

    def cleanup(self):
        if not self.keep:
            shutil.rmtree(self.root, ignore_errors=True)

    def copy_repo(self):
        subprocess.check_call(["rsync", "-a", "--delete", "--exclude", "/target", "--exclude", ".git",
                               REPO.rstrip("/") + "/", self.repo + "/"])
        # run cargo offline inside the scratch workspace
        os.makedirs(os.path.join(self.repo, ".cargo"), exist_ok=True)
        with open(os.path.join(self.repo, ".cargo", "config.toml"), "a") as f:
            f.write("\n[net]\noffline = true\n")

    def inject(self, generated):
        """Append harness modules.  `generated` maps harness-file key -> generated Rust text."""
        support = open(os.path.join(HARNESS_DIR, "support.rs")).read()
        self.harness_index = {}   # harness fn name -> (crate, rust path)
        for crate, lib in CRATE_LIB.items():
            incs = []
            base = os.path.join(HARNESS_DIR, crate)
            for dp, dn, fn in os.walk(base):
                for f in sorted(fn):
                    if f.endswith(".inc"):
                        incs.append(os.path.join(dp, f))
            for inc in sorted(incs):
                rel = os.path.relpath(inc, HARNESS_DIR)[:-4]          # e.g. deblock/src/deblock.rs
                txt = open(inc).read()
                gen = generated.get(rel, "")
                txt = txt.replace("//@GENERATED@", gen)
                target = os.path.join(self.repo, rel)
                src = open(target).read()
                src = self.rewrite_source(rel, src)
                modpath = self.module_path(crate, rel)
                modname = re.search(r"pub\(crate\) mod (\w+)", txt).group(1)
                names = []
                # harness functions: `pub fn name()` preceded by a kani::proof attribute
                for m in re.finditer(r"kani::proof\)\]\s*(?:#\[[^\n]*\]\s*)*pub fn (\w+)\s*\(\)", txt):
                    name = m.group(1)
                    path = "crate::%s%s::%s" % (modpath + "::" if modpath else "", modname, name)
                    if name in self.harness_index:
                        raise SystemExit("duplicate harness name " + name)
                    self.harness_index[name] = (crate, path)
                    names.append(name)
                # native replay entry (a #[test] next to the harness module, so private modules are reachable)
                entry = "\n#[cfg(all(test, verif_replay))]\nmod verif_replay_%s {\n    #[test]\n    fn entry() {\n        crate::vs::replay::run_entry(&[\n" % modname
                for n in names:
                    entry += "            (\"%s\", super::%s::%s as fn()),\n" % (n, modname, n)
                entry += "        ]);\n    }\n}\n"
                self.replay_entry = getattr(self, "replay_entry", {})
                for n in names:
                    self.replay_entry[n] = "%sverif_replay_%s::entry" % (modpath + "::" if modpath else "", modname)
                with open(target, "w") as f:
                    f.write(src + "\n" + txt + entry)
            libp = os.path.join(self.repo, lib)
            with open(libp, "a") as f:
                f.write("\n" + support + "\n")

    @staticmethod
    def module_path(crate, rel):
        # deblock/src/deblock.rs -> "deblock"; h263/src/decoder/cpu/rle.rs -> "decoder::cpu::rle"; lib.rs -> ""
        p = rel.split("/src/", 1)[1][:-3]
        if p == "lib":
            return ""
        return p.replace("/", "::")

    @staticmethod
    def rewrite_source(rel, src):
        if rel == "h263/src/decoder/state.rs":
            # std HashMap -> association-list model under cfg(kani) only (DESIGN.md 2.3)
            line = "use std::collections::HashMap;"
            if line not in src:
                raise SystemExit("INCONCLUSIVE: state.rs no longer imports std::collections::HashMap on one line")
            src = src.replace(line, "#[cfg(not(kani))]\nuse std::collections::HashMap;\n#[cfg(kani)]\nuse self::verif_state::verif_map::HashMap;", 1)
            # pixel callees: under native replay the contract preconditions are asserted in front of the REAL callee, so that a
            # contract violation found under Kani (where the callee is a contract stub) reproduces natively
            line = "use crate::decoder::cpu::{gather, idct_channel, inverse_rle, mv_decode, predict_candidate};"
            if line not in src:
                raise SystemExit("INCONCLUSIVE: state.rs no longer imports the cpu callees on one line")
            src = src.replace(line, "#[cfg(not(verif_replay))]\n" + line + "\n#[cfg(verif_replay)]\nuse crate::decoder::cpu::{mv_decode, predict_candidate};\n"
                              "#[cfg(verif_replay)]\nuse self::verif_state::replay_wrappers::{gather, idct_channel, inverse_rle};", 1)
            # parser entry points -> script-driven producers (DESIGN.md 2.3), under Kani and under native replay
            line = "use crate::parser::{decode_block, decode_gob, decode_macroblock, decode_picture, H263Reader};"
            if line not in src:
                raise SystemExit("INCONCLUSIVE: state.rs no longer imports the parser entry points on one line")
            src = src.replace(line, "#[cfg(not(any(kani, verif_replay)))]\n" + line + "\n#[cfg(any(kani, verif_replay))]\nuse crate::parser::H263Reader;\n"
                              "#[cfg(any(kani, verif_replay))]\nuse self::verif_state::producers::{decode_block, decode_gob, decode_macroblock, decode_picture};", 1)
        return src

    def new_slot(self):
        with self.lock:
            k = len(self.slots)
            d = os.path.join(self.root, "t%d" % k)
            self.slots.append(d)
        for tmpl in (os.path.join(self.root, "tk"), os.path.join(CACHE, "kani-target")):
            if os.path.isdir(tmpl):
                subprocess.call(["cp", "-a", tmpl, d])
                break
        return d


# ---------------------------------------------------------------------------
def _limits():
    resource.setrlimit(resource.RLIMIT_AS, (MEM_GB << 30, MEM_GB << 30))
    os.setsid()


def run_cmd(cmd, cwd, timeout, env=None, limit=True):
    t0 = time.time()
    e = dict(os.environ)
    e["CARGO_NET_OFFLINE"] = "true"
    e.pop("RUSTFLAGS", None)
    if env:
        e.update(env)
    p = subprocess.Popen(cmd, cwd=cwd, stdout=subprocess.PIPE, stderr=subprocess.STDOUT, env=e,
                         preexec_fn=_limits if limit else os.setsid, text=True, errors="replace")
    try:
        out, _ = p.communicate(timeout=timeout)
        to = False
    except subprocess.TimeoutExpired:
        try:
            os.killpg(p.pid, signal.SIGKILL)
        except ProcessLookupError:
            pass
        out, _ = p.communicate()
        to = True
    return p.returncode, out, to, time.time() - t0


KANI_LIB_C = os.path.expanduser("~/.kani/kani-0.68.0/library/kani/kani_lib.c")
CBMC_FLAGS = ["--no-malloc-may-fail", "--no-undefined-shift-check", "--no-signed-overflow-check", "--nan-check",
              "--no-self-loops-to-assumptions", "--no-pointer-primitive-check", "--object-bits", "16",
              "--sat-solver", "cadical", "--slice-formula"]     # exactly what kani-driver 0.68 passes
PROP_RE = re.compile(r"^\[(.+)\] line (\d+) (.*): (SUCCESS|FAILURE|UNKNOWN|ERROR)$")
HDR_RE = re.compile(r"^(\S.*) function (.+)$")


def parse_cbmc(out, res):
    """plain-text CBMC result list -> failed checks / cover goals (Kani's property classes)"""
    cur = ("", "")
    in_results = False
    for line in out.splitlines():
        if line.startswith("** Results:"):
            in_results = True
            continue
        if not in_results:
            continue
        m = PROP_RE.match(line)
        if m:
            name, ln, desc, status = m.groups()
            cls = name.rsplit(".", 2)[-2] if name.count(".") >= 2 else ""
            res.n_checks += 1
            loc = "%s:%s in function %s" % (cur[0], ln, cur[1])
            if cls == "reachability_check":
                continue
            if cls == "cover":
                # Kani encodes cover!(c) as assert(!c): FAILURE <=> the goal is reachable and satisfiable
                res.covers[desc.strip('"')] = "SATISFIED" if status == "FAILURE" else "UNSATISFIABLE"
                continue
            if status != "SUCCESS":
                res.failed.append((status, desc, loc, name))
            continue
        h = HDR_RE.match(line)
        if h:
            cur = (h.group(1), h.group(2))
    m = re.search(r"size of program expression: (\d+) steps", out)
    if m:
        res.steps = int(m.group(1))
    m = re.findall(r"(\d+) variables, (\d+) clauses", out)
    if m:
        res.vars, res.clauses = int(m[-1][0]), int(m[-1][1])
    m = re.findall(r"Runtime decision procedure: ([0-9.eE+-]+)s", out)
    if m:
        res.solver_s = sum(float(x) for x in m)
    if "VERIFICATION SUCCESSFUL" in out:
        return "SUCCESSFUL"
    if "VERIFICATION FAILED" in out:
        return "FAILED"
    return None


def kani_cmd(job, slot, playback=False, index=None):
    full = job.harness
    if index and job.harness in index:
        full = index[job.harness][1].replace("crate::", "", 1)
    cmd = ["cargo", "kani", "-p", CRATE_OF[job.crate], "--target-dir", slot, "--harness", full, "--exact",
           "-Z", "stubbing", "--output-format", "regular"]
    if playback:
        cmd += ["-Z", "concrete-playback", "--concrete-playback=print"]
    extra = list(job.cbmc_args)
    if job.unwindset:
        extra += ["--unwindset", ",".join("%s:%d" % kv for kv in job.unwindset.items())]
    if extra:
        cmd += ["-Z", "unstable-options", "--cbmc-args"] + extra
    return cmd


def classify(job, verdict, out, timed_out, res):
    """pass / fail / inconclusive from CBMC's output (DESIGN.md 2.2)."""
    if timed_out:
        res.status, res.reason = "inconclusive", "timeout after %ds" % job.timeout
        return
    if verdict is None:
        why = "no verdict from CBMC"
        if "std::bad_alloc" in out or "Out of memory" in out or "out of memory" in out or "MemoryError" in out:
            why = "out of memory (limit %d GB)" % MEM_GB
        else:
            why += ": " + " | ".join(out.strip().splitlines()[-3:])[:300]
        res.status, res.reason = "inconclusive", why
        return
    hard = [f for f in res.failed if f[0] == "FAILURE"]
    undet = [f for f in res.failed if f[0] != "FAILURE"]
    if job.tagged:
        # harness shared by several properties: assertions carry a "[Cxx]" tag; untagged failures (panics, overflow,
        # bounds, contract-stub preconditions) belong to C01
        keep = [f for f in hard if relevant(f[1]) or ".unwind." in f[3] or "unwinding assertion" in f[1] or ".unsupported_construct." in f[3]]
        res.other_property_failures = ["%s @ %s" % (f[1], short_loc(f[2])) for f in hard if f not in keep][:6]
        hard = keep
    unsupported = [f for f in hard if ".unsupported_construct." in f[3] or "not currently supported" in f[1] or "is not supported" in f[1]]
    unwind = [f for f in hard if ".unwind." in f[3] or "unwinding assertion" in f[1]]
    if undet:
        res.status, res.reason = "inconclusive", "CBMC left checks undecided: " + undet[0][1]
        return
    if verdict == "SUCCESSFUL" or not hard:
        bad = [d for d, s in res.covers.items() if s != "SATISFIED" and d not in job.allow_uncovered]
        if job.need_any_cover and not any(res.covers.get(d) == "SATISFIED" for d in job.need_any_cover):
            if job.tagged and getattr(res, "other_property_failures", None):
                # every path ends in a failure that belongs to another property (reported by that property's check)
                res.note = "no path reaches the end of the harness: " + "; ".join(res.other_property_failures[:2])
            else:
                bad.append("none of: " + " / ".join(job.need_any_cover))
        if bad:
            res.status, res.reason = "inconclusive", "vacuity: cover goal(s) not satisfied: " + "; ".join(bad)
            return
        res.status = "pass"
        return
    if unsupported:
        res.status, res.reason = "inconclusive", "unsupported construct reachable: %s @ %s" % (unsupported[0][1], short_loc(unsupported[0][2]))
        return
    if unwind:
        # a too-small bound is reported, never silently truncated; other failures past the bound are not trusted
        res.status, res.reason = "inconclusive", "unwinding bound too small: " + unwind[0][1] + " @ " + short_loc(unwind[0][2])
        return
    res.status = "fail"
    res.reason = "; ".join("%s @ %s" % (f[1], short_loc(f[2])) for f in hard[:4])
    res.failed = hard


def relevant(desc):
    m = re.match(r'"?\[(C\d+(?:,C\d+)*)\]', desc)
    if m:
        return CURRENT_PROP[0] in m.group(1).split(",")
    return CURRENT_PROP[0] == "C01"


def short_loc(loc):
    loc = re.sub(r"^.*?/repo/", "", loc)
    loc = re.sub(r"^.*?/rustlib/src/rust/library/", "std:", loc)
    loc = re.sub(r"^.*?/registry/src/[^/]+/", "dep:", loc)
    return loc


def parse_witness(out, tagged=False):
    """concrete values printed by --concrete-playback=print (first block that belongs to a failed check, not a cover)"""
    blocks = re.split(r"Concrete playback unit test for", out)
    pick = None
    for b in blocks[1:]:
        if re.search(r"Check for `cover`", b):
            continue
        m = re.search(r"Check for `[^`]*`: (.*)", b)
        if tagged and m and not relevant(m.group(1).strip().strip('"')):
            continue
        pick = b
        break
    if pick is None:
        return None
    m = re.search(r"let concrete_vals: Vec<Vec<u8>> = vec!\[(.*?)\n\s*\];", pick, re.S)
    if not m:
        return None
    vals = []
    for line in m.group(1).splitlines():
        line = line.strip()
        mm = re.match(r"vec!\[(.*)\],?$", line)
        if mm:
            body = mm.group(1).strip()
            vals.append([int(x) for x in body.split(",") if x.strip()] if body else [])
    return vals


class Runner:
    """codegen once per crate with kani-compiler, then one CBMC process per harness (same flags as kani-driver)"""

    def __init__(self, scratch):
        self.scratch = scratch
        self.meta = {}        # harness fn name -> {mangled, unwind, symtab}
        self.tls = threading.local()
        self.gdir = os.path.join(scratch.root, "goto")
        os.makedirs(self.gdir, exist_ok=True)

    def codegen(self, jobs):
        """returns None or an error text"""
        idx = self.scratch.harness_index
        for crate in sorted(set(j.crate for j in jobs if j.kind == "kani")):
            names = []
            for j in jobs:
                if j.crate == crate and j.kind == "kani":
                    if j.harness not in idx:
                        return "harness %s is not defined in /verif/harness" % j.harness
                    names.append(idx[j.harness][1].replace("crate::", "", 1))
            tdir = os.path.join(self.scratch.root, "tk")
            tmpl = os.path.join(CACHE, "kani-target")
            if not os.path.isdir(tdir) and os.path.isdir(tmpl):
                subprocess.call(["cp", "-a", tmpl, tdir])
            cmd = ["cargo", "kani", "-p", CRATE_OF[crate], "--target-dir", tdir, "--only-codegen", "-Z", "stubbing",
                   "--no-assertion-reach-checks", "--exact"]
            for n in sorted(set(names)):
                cmd += ["--harness", n]
            rc, out, to, wall = run_cmd(cmd, self.scratch.repo, 3600, limit=False)
            self.save_log("codegen-" + crate, out)
            if rc != 0 or to:
                errs = re.findall(r"(error(?:\[E\d+\])?: [^\n]*\n(?:[^\n]*\n){0,6})", out)
                return ("codegen of crate %s failed (rc=%s):\n" % (crate, rc)) + ("".join(errs[:4]) if errs else out[-2500:])
            mds = []
            for dp, dn, fn in os.walk(tdir):
                for f in fn:
                    if f.endswith(".kani-metadata.json") and f.startswith(CRATE_OF[crate].replace("-", "_")):
                        mds.append(os.path.join(dp, f))
            mds.sort(key=os.path.getmtime)
            if not mds:
                return "no kani metadata produced for " + crate
            md = json.load(open(mds[-1]))
            for h in md["proof_harnesses"]:
                short = h["pretty_name"].rsplit("::", 1)[-1]
                self.meta[short] = {"mangled": h["mangled_name"], "unwind": h["attributes"].get("unwind_value"),
                                    "symtab": h["goto_file"], "stubs": h["attributes"].get("stubs", [])}
        missing = [j.harness for j in jobs if j.kind == "kani" and j.harness not in self.meta]
        if missing:
            return "harnesses missing from Kani metadata: " + ", ".join(missing[:5])
        return None

    def slot(self):
        if not hasattr(self.tls, "slot"):
            self.tls.slot = self.scratch.new_slot()
        return self.tls.slot

    def run_smt(self, job):
        from vf import smt
        res = Result(job)
        t0 = time.time()
        verdict, detail = smt.decide(job.smt, job.timeout)
        res.wall = time.time() - t0
        res.solver_s = detail.get("z3_s", 0) + detail.get("cvc5_s", 0)
        res.n_checks = 1
        self.save_log(job.harness, job.smt + "\n; " + json.dumps(detail))
        if verdict == "unsat":
            res.status = "pass"
            res.covers = {"smt: negated claim unsat in z3 and cvc5": "SATISFIED"}
        else:
            # a satisfiable oracle obligation means the harness oracle (not /repo) is wrong: never a violation
            res.status, res.reason = "inconclusive", "oracle side obligation not discharged: %s %s" % (verdict, json.dumps(detail)[:300])
        return res

    def run(self, job):
        if job.kind == "smt":
            return self.run_smt(job)
        res = Result(job)
        t0 = time.time()
        m = self.meta[job.harness]
        g = os.path.join(self.gdir, job.harness + ".out")
        steps = [
            ["goto-cc", m["symtab"], KANI_LIB_C, "-o", g],
            ["goto-cc", g, "--function", m["mangled"], "-o", g],
            ["goto-instrument", "--add-library", "--no-malloc-may-fail", g, g],
            ["goto-instrument", "--generate-function-body-options", "assert-false-assume-false", "--generate-function-body", ".*",
             "--drop-unused-functions", g, g],
            ["goto-instrument", "--ensure-one-backedge-per-target", g, g],
        ]
        for c in steps:
            rc, out, to, wall = run_cmd(c, self.scratch.root, 600)
            if rc != 0:
                res.status, res.reason = "inconclusive", "goto pipeline failed: %s: %s" % (c[0], out[-300:])
                res.wall = time.time() - t0
                return res
        uws = dict(job.unwindset or {})
        if job.unwind_by_fn:
            rc, lo, to, wall = run_cmd(["cbmc", "--show-loops", g], self.scratch.root, 300)
            for lm in re.finditer(r"Loop (\S+):\n\s+file (\S+) line \d+(?: column \d+)? function (.+)", lo):
                lid, lfile, lfn = lm.groups()
                for sub, bound in job.unwind_by_fn.items():
                    if sub in lfn:
                        uws[lid] = bound
            job.unwindset = uws
        cmd = ["cbmc"] + CBMC_FLAGS
        if m["unwind"] is not None:
            cmd += ["--unwind", str(m["unwind"])]
        cmd += ["--unwinding-assertions"]
        if job.unwindset:
            cmd += ["--unwindset", ",".join("%s:%d" % kv for kv in job.unwindset.items())]
        cmd += list(job.cbmc_args) + [g, "--verbosity", "8"]
        rc, out, to, wall = run_cmd(cmd, self.scratch.root, job.timeout)
        res.log = out
        verdict = parse_cbmc(out, res)
        classify(job, verdict, out, to, res)
        self.save_log(job.harness, out)
        res.wall = time.time() - t0
        if res.status == "fail" and job.expect == "pass":
            self.witness_and_replay(job, res, g, cmd)
        try:
            os.remove(g)
        except OSError:
            pass
        return res

    def save_log(self, name, out):
        d = os.path.join(self.scratch.root, "logs")
        os.makedirs(d, exist_ok=True)
        with open(os.path.join(d, name + ".log"), "w") as f:
            f.write(out)

    def witness_and_replay(self, job, res, g, cmd):
        """counterexample: ask CBMC for the trace of the first relevant failed check (no formula slicing, so that every
        nondeterministic value is in it), take the values returned by kani::any in call order, re-execute natively"""
        with self.scratch.lock:
            self.replays = getattr(self, "replays", 0) + 1
            k = self.replays
        if k > MAX_REPLAYS:
            res.replay = {"reproduced": None, "skipped": True}
            return
        t0 = time.time()
        prop_name = res.failed[0][3]
        tcmd = [c for c in cmd if c != "--slice-formula"]
        tcmd = tcmd[:-2] + ["--property", prop_name, "--trace", "--verbosity", "4"]
        rc, out, to, wall = run_cmd(tcmd, self.scratch.root, max(900, job.timeout * 3))
        self.save_log(job.harness + ".trace", out[-4000000:])
        w = extract_witness(out) if not to else None
        if not w:
            res.replay = {"reproduced": None, "why": "no witness values in the CBMC trace" + (" (timeout)" if to else "")}
        else:
            res.witness = w
            res.replay = native_replay(self.scratch, job.crate, job.harness, w, os.path.join(self.scratch.root, "t-native-%d" % (k % 3)))
        res.wall += time.time() - t0


STATE_RE = re.compile(r"^State \d+ (?:file (\S+) )?function (.+?) (?:line \d+ )?thread \d+$")
VAL_RE = re.compile(r"^  goto_symex\$\$return_value\$\$\S*?(any_raw_internal|any_raw_array)\S*?(?:\[(\d+)\])?=.*\(([01 ]+)\)\s*$")


def bits_to_bytes(bits):
    bits = bits.replace(" ", "")
    n = len(bits) // 8
    v = int(bits, 2) if bits else 0
    return [(v >> (8 * i)) & 0xFF for i in range(n)]


def extract_witness(trace):
    """values returned by kani::any (any_raw_internal / any_raw_array) in call order, as little-endian byte lists;
    arrays contribute one entry per element (the layout Kani's own concrete playback uses)"""
    vals = []
    cur_fn = None
    arr = None          # (n, elem_bytes, {index: bytes})
    def flush():
        nonlocal arr
        if arr is not None:
            n, eb, d = arr
            for i in range(n):
                vals.append(d.get(i, [0] * eb))
            arr = None
    for line in trace.splitlines():
        m = STATE_RE.match(line)
        if m:
            fn = m.group(2)
            if not fn.startswith("kani::any_raw_array"):
                flush()
            cur_fn = fn
            continue
        if "Violated property" in line:
            break
        v = VAL_RE.match(line)
        if not v or cur_fn is None:
            continue
        kind, idx, bits = v.groups()
        by = bits_to_bytes(bits)
        if kind == "any_raw_internal" and cur_fn.startswith("kani::any_raw_internal"):
            flush()
            vals.append(by)
        elif kind == "any_raw_array" and cur_fn.startswith("kani::any_raw_array") and idx is not None:
            mm = re.search(r"any_raw_array::<.*, (\d+)>", cur_fn)
            n = int(mm.group(1)) if mm else 0
            i = int(idx)
            if arr is not None and i in arr[2]:
                flush()
            if arr is None:
                arr = (n, len(by), {})
            arr[2][i] = by
    flush()
    return vals


def write_witness(path, harness, vals, header=""):
    with open(path, "w") as f:
        f.write("# harness: %s\n" % harness)
        for h in header.splitlines():
            f.write("# %s\n" % h)
        for v in vals:
            f.write((",".join(str(b) for b in v) if v else "-") + "\n")


def native_replay(scratch, crate, harness, vals, target_dir, profiles=("dev", "release")):
    """Re-execute the harness body natively on the witness (real code, no stubs, no Kani)."""
    wf = os.path.join(scratch.root, "witness-%s.txt" % harness)
    write_witness(wf, harness, vals)
    outp = {}
    for prof in profiles:
        cmd = ["cargo", "test", "--offline", "-p", CRATE_OF[crate], "--lib", "--target-dir", target_dir]
        if prof == "release":
            cmd.append("--release")
        cmd += [scratch.replay_entry[harness], "--", "--exact", "--nocapture", "--test-threads", "1"]
        env = {"RUSTFLAGS": "--cfg verif_replay -A warnings", "VERIF_HARNESS": harness, "VERIF_WITNESS": wf}
        rc, out, to, wall = run_cmd(cmd, scratch.repo, 900, env=env, limit=False)
        started = "VERIF-REPLAY: START" in out
        completed = "VERIF-REPLAY: HARNESS-COMPLETED" in out
        assume_viol = "VERIF-REPLAY: ASSUMPTION-VIOLATED" in out
        panicked = re.search(r"panicked at ([^\n]*)\n([^\n]*)", out)
        crashed = started and not completed and not assume_viol and rc != 0
        outp[prof] = {
            "started": started, "completed": completed, "assumption_violated": assume_viol,
            "failed": bool(crashed),
            "panic": (panicked.group(1) + " :: " + panicked.group(2)) if panicked else None,
            "exit": rc, "timed_out": to,
        }
        if not started:
            outp[prof]["build_tail"] = out[-1500:]
    reproduced = outp["dev"]["failed"] if "dev" in outp else False
    return {"reproduced": reproduced, "profiles": outp, "witness_file": wf}


# ---------------------------------------------------------------------------
def load_known_findings():
    p = os.path.join(VERIF, "known_findings.json")
    if not os.path.exists(p):
        return {"findings": [], "fixed": []}
    return json.load(open(p))


def finding_matches(kf, prop, res):
    if kf.get("property") != prop:
        return False
    if kf.get("harness_re") and not re.search(kf["harness_re"], res.job.harness):
        return False
    pat = kf.get("failing_check_re")
    if pat and not any(re.search(pat, f[1] + " @ " + short_loc(f[2])) for f in res.failed):
        return False
    # every failed check must be explained by the finding, otherwise something else is wrong too
    if pat and not all(re.search(pat, f[1] + " @ " + short_loc(f[2])) for f in res.failed if f[0] == "FAILURE"):
        return False
    return True


# ---------------------------------------------------------------------------
def main():
    ap = argparse.ArgumentParser()
    ap.add_argument("prop", nargs="?")
    ap.add_argument("--warm-cache", action="store_true")
    ap.add_argument("--tier", default=os.environ.get("VERIF_TIER", "quick"), choices=["quick", "thorough"])
    ap.add_argument("--replay")
    ap.add_argument("--keep", action="store_true")
    ap.add_argument("--only", help="only harnesses whose name contains this substring")
    ap.add_argument("--list", action="store_true")
    a = ap.parse_args()
    if a.warm_cache:
        return warm_cache()
    prop = a.prop.upper()
    CURRENT_PROP[0] = prop
    seed = int(os.environ.get("VERIF_SEED", "0") or 0)
    t0 = time.time()

    sys.path.insert(0, VERIF)
    mod = importlib.import_module("vf.props." + prop.lower())
    spec = mod.spec(a.tier, seed)           # dict: jobs, generated, functions, bounds, stubs, outside, assumptions, rule
    jobs = spec["jobs"]
    if a.only:
        jobs = [j for j in jobs if a.only in j.harness]
        PARTIAL[0] = True
    if a.list:
        for j in jobs:
            print(j.crate, j.harness, j.timeout, j.expect)
        return 0

    scratch = Scratch(keep=a.keep)
    scratch.copy_repo()
    scratch.inject(spec.get("generated", {}))

    if a.replay:
        return do_replay(scratch, prop, a.replay)

    runner = Runner(scratch)
    results = []
    log("[%s] tier=%s seed=%d: %d solver obligations, up to %d in parallel" % (prop, a.tier, seed, len(jobs), NJOBS))
    # build once first (dependencies) so that parallel slots start from a warm copy
    warm = runner.codegen(jobs)
    log("[%s] codegen done (%.0fs)" % (prop, time.time() - t0))
    if warm:
        log("[%s] INCONCLUSIVE: scratch copy does not build under Kani:\n%s" % (prop, warm))
        write_evidence(prop, a.tier, seed, spec, [], t0, violations=0, inconclusive=[{"harness": "*build*", "reason": warm[-800:]}], known=[])
        return 2
    jobs_sorted = sorted(jobs, key=lambda j: -j.weight)
    with cf.ThreadPoolExecutor(max_workers=min(NJOBS, max(1, len(jobs)))) as ex:
        futs = {ex.submit(runner.run, j): j for j in jobs_sorted}
        for fu in cf.as_completed(futs):
            r = fu.result()
            results.append(r)
            log("  %-44s %-12s %6.1fs  steps=%-8d %s" % (r.job.harness, r.status.upper() if r.job.expect == "pass" else ("twin:" + r.status), r.wall, r.steps, r.reason[:160]))

    return conclude(prop, a.tier, seed, spec, results, t0, scratch)


def warm_cache():
    """setup: compile the dependency crates once under Kani and natively (dev+release test profiles are not cached)"""
    scratch = Scratch()
    scratch.copy_repo()
    tdir = os.path.join(CACHE, "kani-target")
    shutil.rmtree(tdir, ignore_errors=True)
    os.makedirs(CACHE, exist_ok=True)
    for crate in CRATE_OF.values():
        rc, out, to, wall = run_cmd(["cargo", "kani", "-p", crate, "--target-dir", tdir, "--only-codegen", "-Z", "stubbing"],
                                    scratch.repo, 1800, limit=False)
        log("warm-cache %s rc=%s %.0fs" % (crate, rc, wall))
        if rc != 0:
            log(out[-2000:])
    return 0


def conclude(prop, tier, seed, spec, results, t0, scratch):
    kf = load_known_findings()
    findings = [k for k in kf.get("findings", []) if k.get("property") == prop]
    violations, inconcl, known_hit, extra_cex = [], [], [], []
    replay_dir = os.path.join(VERIF, "replays", prop)
    for r in results:
        j = r.job
        if j.is_kf_twin and r.status == "fail":
            # only meaningful together with its plain sibling (handled there)
            sib = [x for x in results if x.job.kf_twin == j.harness]
            if sib and sib[0].status == "fail":
                continue
        if j.expect == "fail":
            if r.status != "fail":
                inconcl.append({"harness": j.harness, "reason": "vacuity twin did not fail (%s %s)" % (r.status, r.reason)})
            continue
        if r.status == "pass":
            continue
        if r.status == "inconclusive":
            inconcl.append({"harness": j.harness, "reason": r.reason})
            continue
        # counterexample
        hit = [k for k in findings if finding_matches(k, prop, r)]
        if j.is_kf_twin and not findings:
            # no finding is recorded for this property: the twin has nothing to exclude; its plain sibling decides
            continue
        if hit and j.kf_twin:
            tw = [x for x in results if x.job.harness == j.kf_twin]
            if tw and tw[0].status == "fail":
                hit = []          # the failure persists with the finding assumed away: a different violation
            elif tw and tw[0].status == "inconclusive":
                inconcl.append({"harness": j.kf_twin, "reason": "known-finding twin undecided: " + tw[0].reason})
        rep = r.replay or {}
        if rep.get("skipped"):
            extra_cex.append({"harness": j.harness, "reason": r.reason})
            continue
        if rep.get("reproduced"):
            os.makedirs(replay_dir, exist_ok=True)
            path = os.path.join(replay_dir, j.harness + ".witness")
            hdr = "property: %s\nfailed: %s\nnative replay (dev): %s\nnative replay (release): %s\nreplay with: ./check %s --replay %s" % (
                prop, r.reason, json.dumps(rep["profiles"].get("dev")), json.dumps(rep["profiles"].get("release")), prop, path)
            write_witness(path, j.harness, r.witness, hdr)
            if hit:
                known_hit.append({"finding": hit[0]["id"], "harness": j.harness, "what": hit[0]["what"], "replay": path})
            else:
                violations.append({"harness": j.harness, "reason": r.reason, "replay": path, "params": j.params})
        else:
            why = "counterexample did not reproduce natively (model/stub/oracle suspect): %s | replay=%s" % (r.reason, json.dumps(rep)[:600])
            if hit and hit[0].get("not_natively_observable"):
                known_hit.append({"finding": hit[0]["id"], "harness": j.harness, "what": hit[0]["what"], "replay": None})
            else:
                inconcl.append({"harness": j.harness, "reason": why})
    for k in sorted(set((x["finding"], x["what"]) for x in known_hit)):
        log("KNOWN-FINDING: property=%s %s (%s)" % (prop, k[1], k[0]))
    for v in violations:
        log("VIOLATION property=%s replay=%s" % (prop, v["replay"]))
        log("    harness=%s  %s" % (v["harness"], v["reason"]))
    for x in extra_cex:
        log("    further counterexample (not replayed, limit %d per run): harness=%s  %s" % (MAX_REPLAYS, x["harness"], x["reason"][:200]))
    if extra_cex and not violations and not known_hit:
        inconcl.append({"harness": extra_cex[0]["harness"], "reason": "counterexamples found but none replayed"})
    for i in inconcl:
        log("INCONCLUSIVE harness=%s: %s" % (i["harness"], i["reason"][:400]))
    write_evidence(prop, tier, seed, spec, results, t0, len(violations), inconcl, known_hit)
    if violations:
        return 1
    if inconcl:
        return 2
    log("[%s] OK: %d obligations held within bounds (%.0fs)" % (prop, sum(1 for r in results if r.status == "pass"), time.time() - t0))
    return 0


def write_evidence(prop, tier, seed, spec, results, t0, violations, inconclusive, known):
    passed = [r for r in results if r.job.expect == "pass" and r.status == "pass"]
    nontrivial = [r for r in passed if r.covers and all(s == "SATISFIED" for d, s in r.covers.items() if d not in r.job.allow_uncovered)]
    samples = []
    for r in sorted(results, key=lambda r: r.job.harness)[:6]:
        samples.append({"harness": r.job.harness, "crate": r.job.crate, "params": r.job.params, "verdict": r.status,
                        "checks_in_query": r.n_checks, "cover_goals": r.covers, "program_steps": r.steps,
                        "sat_vars": r.vars, "sat_clauses": r.clauses, "wall_s": round(r.wall, 1)})
    ev = {
        "property_id": prop, "tier": tier, "seed": seed, "level": "model_checking",
        "coverage": {
            "evaluations": len(results),
            "distinct_nontrivial": len(nontrivial),
            "rule": spec.get("rule", "") + " | one evaluation = one SAT query (Kani harness instance) decided by CBMC/CaDiCaL over all values of its symbolic inputs; non-trivial = verdict SUCCESSFUL with every kani::cover! witness of the harness SATISFIED (the interesting branch is reachable under the assumptions); distinct = distinct harness instance (function x structural parameters)",
            "samples": samples,
            "exhaustive": False,
            "functions_encoded": spec.get("functions", []),
            "bounds": spec.get("bounds", []),
            "outside_bounds": spec.get("outside", []),
            "stubs": spec.get("stubs", []),
            "queries_discharged": len(passed),
            "queries_total": len([r for r in results if r.job.expect == "pass"]),
            "vacuity_twins_failed_as_required": len([r for r in results if r.job.expect == "fail" and r.status == "fail"]),
            "checks_in_queries": sum(r.n_checks for r in results),
            "cover_goals_satisfied": sum(1 for r in results for s in r.covers.values() if s == "SATISFIED"),
            "program_steps": sum(r.steps for r in results),
            "sat_vars": sum(r.vars for r in results), "sat_clauses": sum(r.clauses for r in results),
            "solver": "CBMC 6.11.0 + CaDiCaL via Kani 0.68.0 (cargo kani), encoding regenerated from /repo working tree on this run",
            "solver_time_s": round(sum(r.solver_s for r in results), 2),
            "cpu_wall_sum_s": round(sum(r.wall for r in results), 1),
            "inconclusive": inconclusive,
            "known_findings_hit": known,
            "repo_tree_digest": tree_digest(),
        },
        "assumptions": spec.get("assumptions", []),
        "wall_s": round(time.time() - t0, 1),
        "violations": violations,
    }
    os.makedirs(os.path.join(VERIF, "evidence"), exist_ok=True)
    # a filtered run (--only) is a debugging aid: it must not replace the evidence of a full run
    name = prop + (".partial" if PARTIAL[0] else "") + ".json"
    with open(os.path.join(VERIF, "evidence", name), "w") as f:
        json.dump(ev, f, indent=1)


def tree_digest():
    h = hashlib.sha256()
    for dp, dn, fn in os.walk(REPO):
        dn[:] = sorted(d for d in dn if d not in ("target", ".git"))
        for f in sorted(fn):
            if f.endswith(".rs") or f.endswith(".toml"):
                p = os.path.join(dp, f)
                h.update(p.encode())
                h.update(open(p, "rb").read())
    return h.hexdigest()[:16]


def do_replay(scratch, prop, path):
    txt = open(path).read()
    m = re.search(r"# harness: (\w+)", txt)
    if not m:
        log("not a witness file")
        return 2
    harness = m.group(1)
    vals = []
    for line in txt.splitlines():
        line = line.strip()
        if not line or line.startswith("#"):
            continue
        vals.append([] if line == "-" else [int(x) for x in line.split(",")])
    if harness not in scratch.harness_index:
        log("unknown harness " + harness)
        return 2
    crate = scratch.harness_index[harness][0]
    rep = native_replay(scratch, crate, harness, vals, os.path.join(scratch.root, "t-native"))
    log(json.dumps(rep, indent=1))
    if rep["reproduced"]:
        log("VIOLATION property=%s replay=%s" % (prop, path))
        return 1
    log("witness does not violate the property on the current tree")
    return 0


if __name__ == "__main__":
    sys.exit(main())
