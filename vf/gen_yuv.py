"""Generated yuv420_to_rgba wiring instances (sizes enumerated, plane contents and checked pixel symbolic)."""
import random

STUB = '    #[cfg_attr(kani, kani::stub(crate::bt601::yuv_to_rgba_4x, crate::bt601::verif_yuv::transparent_4x))]\n'
REAL = ('    #[cfg_attr(kani, kani::stub(core::arch::x86_64::_mm_sra_epi32, crate::vs_x86::sra_epi32))]\n'
        '    #[cfg_attr(kani, kani::stub(core::arch::x86_64::_mm_sll_epi32, crate::vs_x86::sll_epi32))]\n')


def name(prefix, w, h):
    return "%s_wire_%dx%d" % (prefix, w, h)


def instance(prefix, w, h, unwind=None):
    cw, ch = (w + 1) // 2, (h + 1) // 2
    if unwind is None:
        unwind = max(4 * (w % 4) + 2, h + 2, w // 4 + 2, 8)
    return ('    #[cfg_attr(kani, kani::proof)]\n    #[cfg_attr(kani, kani::unwind(%d))]\n%s'
            '    pub fn %s() { wiring_check::<%d, %d, %d, %d>() }\n' % (unwind, STUB, name(prefix, w, h), w, h, w * h, cw * ch))


def all_sizes():
    return [(0, 0)] + [(w, h) for w in range(1, 14) for h in range(1, 7)]


def quick_sizes(seed, k=6):
    fixed = [(0, 0), (1, 1), (5, 3), (13, 2), (4, 4), (2, 1), (2, 6), (1, 3), (9, 4)]
    rnd = random.Random(seed)
    rest = [s for s in all_sizes() if s not in fixed]
    return fixed + rnd.sample(rest, k)


def uncovered(w, h):
    if w * h == 0:
        return ("last pixel checked", "first pixel checked")
    return ()
