"""Generated whole-image deblock harness instances (structure enumerated, data symbolic)."""
import random

STUBS = ('    #[cfg_attr(kani, kani::stub(core::arch::x86_64::_mm_sra_epi16, crate::vs_x86::sra_epi16))]\n'
         '    #[cfg_attr(kani, kani::stub(core::arch::x86_64::_mm_max_epi16, crate::vs_x86::max_epi16))]\n'
         '    #[cfg_attr(kani, kani::stub(core::arch::x86_64::_mm_min_epi16, crate::vs_x86::min_epi16))]\n')

# every residue class that changes the loop structure: no edge / one edge / two edges,
# vector chunks with and without scalar remainder, in both directions
WIDTHS = [1, 2, 7, 8, 9, 10, 11, 15, 16, 17, 18, 19]
HEIGHTS = [0, 1, 2, 7, 8, 9, 10, 11, 16, 17, 18]


def name(prefix, w, h):
    return "%s_img_%dx%d" % (prefix, w, h)


def instance(prefix, w, h, from_quant=False, unwind=9):
    return ('    #[cfg_attr(kani, kani::proof)]\n    #[cfg_attr(kani, kani::unwind(%d))]\n%s'
            '    pub fn %s() { image_check::<%d, %d, %d>(%s) }\n' % (unwind, STUBS, name(prefix, w, h), w, h, w * h, "true" if from_quant else "false"))


def all_sizes():
    return [(w, h) for w in WIDTHS for h in HEIGHTS]


def expected_uncovered(w, h):
    u = []
    if h < 10:
        u.append("sample changed by horizontal-edge pass only")
    if w < 10 or h == 0:
        u.append("sample changed by vertical-edge pass only")
    if w < 10 or h < 10:
        u.append("corner sample filtered twice")
    return tuple(u)

def _unused(w, h):
    return ()


def quick_sizes(seed, k=6):
    corner = [(1, 0), (1, 1), (9, 1), (2, 2), (9, 9), (10, 2)]
    rest = [s for s in all_sizes() if s not in corner and s[0] * s[1] <= 200]
    rnd = random.Random(seed)
    must = [(11, 10), (18, 10)]
    pick = rnd.sample([s for s in rest if s not in must], k)
    return corner, must + pick
