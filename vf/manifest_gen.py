#!/usr/bin/env python3
"""Regenerates /verif/MANIFEST.json from the table below (single source of truth)."""
import json, os
VERIF = os.path.dirname(os.path.dirname(os.path.abspath(__file__)))

NOTE = ("Trusted base: rustc + kani-compiler codegen, goto-cc/goto-instrument, CBMC 6.11 + CaDiCaL; the SSE2 intrinsic stubs; "
        "the reference data transcribed from H.263 in the harnesses. Bounds per property in DESIGN.md section 3/4 and in each evidence file.")

CLAIMED = {
    # id: (level text, design ref, technique)
    "C11": ("Bounded model checking of the real run-length expansion / dequantisation routine for every quantizer x level x run x INTRADC combination (up to 3 events per block) against the H.263 reconstruction formula with saturation and the Figure 14 zig-zag table; INTRADC mapping for all 256 codes.",
            "DESIGN.md 3/C11", "bounded model checking of the real code (Kani 0.68 / CBMC 6.11 + CaDiCaL), differential vs. H.263 6.2 oracle"),
    "C12": ("Bounded model checking of the real vector reconstruction: all 64x64 predictor/differential pairs per component, every four-vector sum, medians, and the candidate-predictor selection for every neighbour configuration of pictures 1..3 macroblocks wide, against an independent statement of H.263 6.1.1 / Figure F.2 / Table 16.",
            "DESIGN.md 3/C12", "bounded model checking of the real code (Kani 0.68 / CBMC 6.11 + CaDiCaL), differential vs. H.263 6.1.1 oracle"),
    "C13": ("Bounded model checking: the plane-size relations of DecodedPicture::new hold for every (width, height) with up to 2^22 samples (both symbolic, one query), and for enumerated picture sizes each plane passes through deblock() with the tabulated strength for every quantizer and the three planes through yuv420_to_rgba without panic and with the exact output length.",
            "DESIGN.md 3/C13", "bounded model checking of the real code (Kani 0.68 / CBMC 6.11 + CaDiCaL)"),
    "C14": ("Bounded model checking of the real bit reader (VecDeque buffer, real io errors): for generated operation sequences with fully symbolic source bytes, every returned value, error kind and the position after every operation equal a bit-vector model; start-code recognition is checked against its specification. Exhaustive over short sequences of an operation/width alphabet, seeded for longer ones.",
            "DESIGN.md 3/C14", "bounded model checking of the real code (Kani 0.68 / CBMC 6.11 + CaDiCaL), differential vs. bit-vector model, generated operation sequences"),
    "C16": ("Bounded model checking of deblock() for every enumerated image size with fewer than two rows or fewer than ten columns (and small sizes with edges), symbolic content and strength: no panic / overflow / out-of-bounds, output equals the Annex J model; the strength table equals Table J.2 entry by entry.",
            "DESIGN.md 3/C16", "bounded model checking of the real code (Kani 0.68 / CBMC 6.11 + CaDiCaL)"),
    "C01": ("Bounded model checking in three layers whose conjunction is the claim: bit reader (the C14 sequences double as no-panic for arbitrary bytes); parser (real VLC walks on every real table terminate within the longest code for every bit pattern; macroblock/block/unrestricted-vector parsing satisfies the output contracts, with the VLC walk abstracted to 'some End entry, at least one bit'); decoder core (one decode call from an arbitrary state satisfying the representation invariant, for enumerated structural scenarios with symbolic payload, pixel callees as contract stubs whose callee side is decided on the real functions). Kani's panic / overflow / bounds / division checks and unwinding assertions are the oracle.",
            "DESIGN.md 3/C01", "bounded model checking of the real code (Kani 0.68 / CBMC 6.11 + CaDiCaL), assume-guarantee over reader / parser / decoder-core layers"),
    "C02": ("Stage-wise bounded model checking of intra reconstruction: dequantisation / zig-zag / INTRADC (all C11 obligations), exact reconstruction of empty and DC-only blocks incl. rounding, both clips, addition and cropping, 1-D transform wiring on one-hot inputs, basis constants. Dense blocks through the f32 transform are outside (C10 n/a); the composition is an argument over stage interfaces.",
            "DESIGN.md 3/C02-C03", "bounded model checking of the real code (Kani 0.68 / CBMC 6.11 + CaDiCaL), stage-wise differential oracles"),
    "C03": ("Stage-wise bounded model checking of predicted-picture reconstruction: half-sample bilinear interpolation with upward rounding and edge clamp for every vector / content / sample at enumerated plane sizes and block origins, wiring of gather() (vector per block, chroma vector rounding, intra not predicted, missing reference rejected), and all C12 vector obligations.",
            "DESIGN.md 3/C02-C03", "bounded model checking of the real code (Kani 0.68 / CBMC 6.11 + CaDiCaL), stage-wise differential oracles"),
    "C04": ("Bounded model checking of one decode step from an arbitrary pre-state (inductive step over the representation invariant, so histories of any length), symbolic 8-bit temporal references incl. equal ones: most-recent picture, reference bookkeeping for I / P / disposable pictures, prediction source, clean-up; plus the macroblock-syntax selection for disposable pictures on the real parser. One recorded known finding (KF-C04-1).",
            "DESIGN.md 3/C04", "bounded model checking of the real code (Kani 0.68 / CBMC 6.11 + CaDiCaL), one inductive step from an arbitrary invariant-satisfying state"),
    "C05": ("Bounded model checking of one decode step from an arbitrary pre-state for failure scenarios at every depth (header, macroblock header with every GOB-probe answer, block data, prediction, zero sizes): on Err the observable decoder state equals the snapshot and the reader position is unchanged.",
            "DESIGN.md 3/C05", "bounded model checking of the real code (Kani 0.68 / CBMC 6.11 + CaDiCaL), state-snapshot comparison on every failing path"),
    "C15": ("Bounded model checking: a successful decode call leaves the reader at the end of the picture's own macroblock data (no record beyond the last macroblock is consumed), and the header parser finds the next picture behind 0..7 zero padding bits at every phase in both modes.",
            "DESIGN.md 3/C15", "bounded model checking of the real code (Kani 0.68 / CBMC 6.11 + CaDiCaL)"),
    "C17": ("Sequential non-interference and determinism only: 2-safety harness on the decode step (two decoders, same history, a third interleaved). The thread-schedule quantifier of the property is NOT covered (no engine).",
            "DESIGN.md 3/C17", "bounded model checking of the real code (Kani 0.68 / CBMC 6.11 + CaDiCaL), 2-safety (self-composition) harness"),
    "C06": ("Bounded model checking of the real header parser over a 256-bit fully symbolic stream against a reference parser transcribed from H.263 5.1 / the Sorenson layout: accept/reject decision, every public header field and the number of consumed bits, for every start phase, header kind and option combination enumerated.",
            "DESIGN.md 3/C06", "bounded model checking of the real code (Kani 0.68 / CBMC 6.11 + CaDiCaL) over a model bit reader, differential vs. reference header parser"),
    "C07": ("Bounded model checking of the compiled 4-pixel kernel against the 16.16 fixed-point BT.601 formula for every input byte combination (all 2^24 colours in every lane), the formula itself shown within 1 of the exact rational BT.601 conversion, alpha 255, and monotonicity of each channel. No bound on values.",
            "DESIGN.md 3/C07", "bounded model checking of the real code (Kani 0.68 / CBMC 6.11 + CaDiCaL), differential vs. fixed-point and exact-rational oracles"),
    "C08": ("Bounded model checking of yuv420_to_rgba at enumerated sizes (all residues mod 4 / mod 2, 1-pixel rows and columns, several SIMD groups) with symbolic planes and a symbolic checked pixel; the colour kernel is replaced by a transparent stub so the query decides the wiring only.",
            "DESIGN.md 3/C08", "bounded model checking of the real code (Kani 0.68 / CBMC 6.11 + CaDiCaL) with a transparent kernel stub"),
    "C09": ("Bounded model checking of the compiled deblocking code: both edge kernels are compared with an independent Annex J oracle for all 2^32 sample patterns x 12 strengths (x 8 lanes), and the whole-image function is compared sample-by-sample with 'Annex J horizontally then vertically' for symbolic image contents at enumerated sizes. A SAT verdict over all values inside the bounds; sizes outside the enumerated set are not claimed.",
            "DESIGN.md 3/C09", "bounded model checking of the real code (Kani 0.68 / CBMC 6.11 + CaDiCaL), differential vs. Annex J oracle"),
}

NOT_APPLICABLE = {
    "C10": "Annex A accuracy is a statistic of one fixed computation over 60,000 dense pseudo-random blocks - nothing for a solver to quantify over, and running the blocks is enumeration (another technique); the for-all strengthening needs 1024 symbolic f32 multiply-adds per block: one symbolic coefficient through the real 2-D path did not return from CBMC in 20 min (DESIGN.md 3/C10). Decidable conjuncts (zero block, DC-only blocks, one-hot wiring, basis constants) run under C02.",
}

def main():
    props = [json.loads(l)["id"] for l in open(os.path.join(VERIF, "properties.jsonl"))]
    checks = []
    for pid in props:
        if pid in CLAIMED:
            text, ref, tech = CLAIMED[pid]
            checks.append({
                "property_id": pid,
                "quick_cmd": "./check %s --tier quick" % pid,
                "thorough_cmd": "./check %s --tier thorough" % pid,
                "evidence_file": "evidence/%s.json" % pid,
                "replay_cmd_template": "./check %s --tier thorough --replay {path}" % pid,
                "engine": "kani-cbmc",
                "level_claimed": {"category": "model_checking", "text": text, "design_ref": ref},
                "level_note": NOTE,
                "technique": tech,
            })
    na = []
    for pid in props:
        if pid not in CLAIMED:
            na.append({"property_id": pid, "reason": NOT_APPLICABLE.get(pid, "no check registered in this commit (machinery under construction; see DESIGN.md)")})
    m = {
        "version": 1,
        "setup_cmd": "./setup.sh",
        "hooks": {
            "guard": "cfg(kani) / cfg(verif_replay) - exist only in the scratch copy the checks make of /repo; nothing is committed to /repo",
            "enable": "checks copy /repo's working tree to /var/tmp/h263-verif.<pid>/repo, append /verif/harness/**/*.inc to the source files and compile with cargo kani (cfg(kani)) or RUSTFLAGS='--cfg verif_replay' (native replay)",
            "baseline_off_cmd": "cd /repo && cargo test --workspace --no-fail-fast --offline",
            "source_commits": [],
            "add_only": True,
        },
        "engines": [{"name": "kani-cbmc", "path": "vf/driver.py", "serves_properties": sorted(CLAIMED),
                     "kind_free_text": "Kani 0.68 codegen of the real crates + CBMC 6.11/CaDiCaL bounded model checking; counterexamples replayed natively"}],
        "checks": checks,
        "not_applicable": na,
        "notes": "Exit codes: 0 held within bounds; 1 + VIOLATION line = natively replayed counterexample not listed in known_findings.json; 2 = inconclusive (timeout/OOM/build failure/non-reproducing witness), never reported as success.",
    }
    json.dump(m, open(os.path.join(VERIF, "MANIFEST.json"), "w"), indent=1)

if __name__ == "__main__":
    main()
