#!/usr/bin/env python3
"""Apply a seeded change to /repo, run a check, undo it straight afterwards, record the outcome in meta.json.
usage: seed_run.py <seeded-name> [<property>] [--tier quick|thorough] [--only substr]"""
import json, os, subprocess, sys, time
VERIF = os.path.dirname(os.path.dirname(os.path.abspath(__file__)))
name = sys.argv[1]
d = os.path.join(VERIF, "seeded", name)
meta = json.load(open(os.path.join(d, "meta.json")))
args = sys.argv[2:]
prop = meta["breaks_property"]
if args and not args[0].startswith("--"):
    prop = args[0]
    args = args[1:]
st = subprocess.run(["git", "-C", "/repo", "status", "--porcelain", "--untracked-files=no"], capture_output=True, text=True).stdout.strip()
assert st == "", "/repo has local changes: " + st
subprocess.check_call(["git", "-C", "/repo", "apply", os.path.join(d, "patch.diff")])
t0 = time.time()
try:
    p = subprocess.run(["./check", prop] + args, cwd=VERIF, capture_output=True, text=True)
finally:
    subprocess.check_call(["git", "-C", "/repo", "checkout", "--", "."])
out = p.stdout + p.stderr
viol = [l for l in out.splitlines() if l.startswith("VIOLATION")]
rec = {"check": "./check %s %s" % (prop, " ".join(args)), "exit": p.returncode, "violation_lines": viol[:5], "wall_s": round(time.time() - t0),
       "detected": p.returncode == 1 and bool(viol)}
if p.returncode != 1:
    rec["tail"] = out.strip().splitlines()[-6:]
meta["checks_run"] = [c for c in meta.get("checks_run", []) if c["check"] != rec["check"]] + [rec]
json.dump(meta, open(os.path.join(d, "meta.json"), "w"), indent=1)
print(name, json.dumps(rec)[:600])
# evidence / replay files written by a run on a mutated tree must not stay behind: witnesses move next to the seed
import shutil
st = subprocess.run(["git", "-C", VERIF, "status", "--porcelain", "replays"], capture_output=True, text=True).stdout
os.makedirs(os.path.join(d, "replays"), exist_ok=True)
for line in st.splitlines():
    path = line[3:].strip()
    full = os.path.join(VERIF, path)
    if os.path.isdir(full):
        for f in os.listdir(full):
            shutil.move(os.path.join(full, f), os.path.join(d, "replays", f))
        os.rmdir(full)
    elif os.path.exists(full):
        shutil.copy(full, os.path.join(d, "replays", os.path.basename(full)))
        if line.startswith("??"):
            os.remove(full)
subprocess.call(["git", "-C", VERIF, "checkout", "--", "evidence", "replays"], stderr=subprocess.DEVNULL)
