from vf.driver import Job

FUNCS = ["h263-rs::decoder::cpu::rle::inverse_rle", "h263-rs::types::IntraDc::{from_u8, into_level, from_level}"]


def spec(tier, seed):
    jobs = [Job("h263", "c11_dequant_1_event", 900, group="dequant"),
            Job("h263", "c11_dc_only_block", 600, group="dequant"),
            Job("h263", "c11_intradc_codes", 300, group="intradc")]
    if tier == "thorough":
        jobs += [Job("h263", "c11_dequant_2_events", 1800, group="dequant"),
                 Job("h263", "c11_dequant_3_events", 3000, group="dequant"),
                 Job("h263", "c11_twin_must_fail", 600, expect="fail", group="twin")]
    from vf import core_scenarios as cs
    dgen, djobs = cs.dquant_jobs(tier, seed)
    jobs += djobs
    return {
        "jobs": jobs, "generated": {"h263/src/decoder/state.rs": dgen},
        "functions": FUNCS, "stubs": [],
        "rule": "inverse_rle on a block with optional INTRADC and N run/level events, all of quantizer 1..31, level -1024..1023 \\ {0} (superset of every codable level in the 7/8/11-bit forms), run 0..63, block position and the checked coefficient cell symbolic; oracle sign(L)(Q(2|L|+1)-[Q even]) saturated, placed by the Figure 14 zig-zag table; INTRADC for all 256 codes",
        "bounds": ["events per block: 1 (quick), 1..3 (thorough)", "unwind = events + 2 with unwinding assertions"],
        "outside": ["more than 3 events per block (same loop body)", "escape-form level widths: parser block harnesses (C01 parser layer, [C11]-tagged)", "DQUANT: decided on decoder-core scenarios of at most 2x2 macroblocks (exact value clip(1..31, previous QUANT + DQUANT) of every leading coded macroblock, observed at widths >= 3); the quantizer after a GOB header (GQUANT) is only range-checked"],
        "assumptions": ["zig-zag table and Table 15 transcribed from H.263 (01/2005)"],
    }
