from vf.driver import Job
from vf import gen_h263 as g, core_meta as m, core_scenarios as cs

S = g.Scenario


def spec(tier, seed):
    eof = cs.mberr("Eof")
    pairs = [(2, S(0, [eof], pt=1, fk=7), S(0, [eof], pt=0, fk=7)),
             (0, S(0, [eof], pt=0, fk=7), S(cs.hdrerr("InvalidPType"), [], pt=None, fk=7))]
    if tier == "thorough":
        pairs += [(3, S(0, [1, eof], pt=2, fk=7), S(cs.hdrerr("InvalidPType"), [], pt=None, fk=7)),
                  (2, S(0, [(0, 3), eof], pt=0, fk=7), S(0, [(0, 0), eof], pt=1, fk=7)),
                  (0, S(0, [(0, 4), eof], pt=0, fk=7), S(0, [1, eof], pt=1, fk=7)),
                  (3, S(0, [cs.mberr("InvalidMacroblockHeader"), eof], pt=1, fk=7, gob={0: (0, 0)}), S(0, [2, eof], pt=1, fk=7))]
    gen, jobs = "", []
    for i, (sh, a, b) in enumerate(pairs):
        gen += g.c17(1, sh, i, a, b)
        n = max(a.nbytes(), b.nbytes())
        jobs.append(Job("h263", g.c17_name(1, sh, i), 3000, tagged=True, group="two decoders, same history, a third one interleaved",
                        params={"history_A": a.describe(), "history_B": b.describe(), "pre_state_shape": sh},
                        cbmc_args=["--max-field-sensitivity-array-size", "%d" % max(200, n + 8)], allow_uncovered=("one decoder succeeds while the other fails",)))
    if tier == "thorough":
        # 20 minutes: thorough tier only
        jobs.append(Job("h263", "c17_header_parse_independent", 4000, tagged=False, group="header parser: an earlier call does not influence a later one",
                        allow_uncovered=("earlier header accepted, later header without optional modes",)))
    return {"jobs": jobs, "generated": {"h263/src/decoder/state.rs": gen, "h263/src/parser/picture.rs": g.c17_hdr() if tier == "thorough" else ""}, "functions": m.FUNCS, "stubs": m.STUBS,
            "rule": "2-safety on the decoder-core step: decoders A1 and A2 start from the same arbitrary state and are fed the same script, a third decoder B (arbitrary other state, other script) runs between them; results (Ok/Err kind), observable state, consumed input must be equal; the lazily initialised option masks equal their defining constants. Scenario pairs enumerated, payload symbolic.",
            "bounds": ["one step per decoder; pictures of one macroblock; %d scenario pairs" % len(pairs)],
            "outside": ["thread interleavings: Kani/CBMC has no concurrency model for Rust threads and no other solver-based engine for Rust threads is installed - the schedules quantifier of C17 is NOT covered; only sequential non-interference is", "hash-order independence cannot be examined on the map model; state.rs never iterates the map (argued)"] + m.OUTSIDE,
            "assumptions": m.ASSUME}
