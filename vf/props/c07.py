import os, re
from vf.driver import Job, HARNESS_DIR

FUNCS = ["h263-rs-yuv::bt601::yuv_to_rgba_4x (wide::i32x4 SSE2 path: sub, mul, add, >>16, max, min, <<, |, bytemuck::cast)"]
STUBS = ["core::arch::x86_64::_mm_sra_epi32 -> lane-wise arithmetic shift (PSRAD)", "core::arch::x86_64::_mm_sll_epi32 -> lane-wise logical left shift (PSLLD)"]


def consts():
    txt = open(os.path.join(HARNESS_DIR, "yuv/src/bt601.rs.inc")).read()
    return {k: int(v) for k, v in re.findall(r"const (K_\w+): i64 = (-?\d+);", txt)}


def L(n):
    return str(n) if n >= 0 else "(- %d)" % -n


HDR = "(set-logic ALL)\n(set-option :produce-models true)\n"


def dom(*vs):
    return "".join("(declare-fun %s () Int)\n(assert (and (<= 0 %s) (<= %s 255)))\n" % (v, v, v) for v in vs)


def floor_def(c, n):
    return "(declare-fun %s () Int)\n(assert (and (<= (* 65536 %s) %s) (< %s (+ (* 65536 %s) 65536))))\n" % (c, c, n, n, c)


def smt_jobs():
    K = consts()
    nr = lambda y, v: "(+ (* %s (- %s 16)) (* %s (- %s 128)) 32768)" % (L(K["K_Y"]), y, L(K["K_RV"]), v)
    ng = lambda y, u, v: "(+ (* %s (- %s 16)) (* %s (- %s 128)) (* %s (- %s 128)) 32768)" % (L(K["K_Y"]), y, L(K["K_GV"]), v, L(K["K_GU"]), u)
    nb = lambda y, u: "(+ (* %s (- %s 16)) (* %s (- %s 128)) 32768)" % (L(K["K_Y"]), y, L(K["K_BU"]), u)
    d_rb = 219 * 224 * 1000
    d_g = 219 * 224 * 1000 * 587
    out = []
    # within 1 of the real-valued formula (exact rational arithmetic: everything multiplied by D)
    real_r = "(+ (* %d (- y 16)) (* %d (- v 128)))" % (255 * 224 * 1000, 255 * 219 * 1402)
    real_b = "(+ (* %d (- y 16)) (* %d (- u 128)))" % (255 * 224 * 1000, 255 * 219 * 1772)
    real_g = "(- (* %d (- y 16)) (* %d (- v 128)) (* %d (- u 128)))" % (255 * 224 * 1000 * 587, 255 * 219 * 1402 * 299, 255 * 219 * 1772 * 114)
    for nm, n, real, d in (("R", nr("y", "v"), real_r, d_rb), ("G", ng("y", "u", "v"), real_g, d_g), ("B", nb("y", "u"), real_b, d_rb)):
        t = HDR + dom("y", "u", "v") + floor_def("c", n)
        t += "(define-fun e () Int (- (* c %d) %s))\n(assert (not (and (<= e %d) (>= e (- %d)))))\n(check-sat)\n(get-model)\n" % (d, real, d, d)
        out.append(("c07_smt_%s_within_1_of_real" % nm, t, "fixed-point %s within 1 of the exact BT.601 value for all (Y,Cb,Cr)" % nm))
    # monotonicity of the unclamped fixed-point value (clamping is monotone)
    mono = [("R_in_Y", nr("y1", "v"), nr("y2", "v"), "y1", "y2", +1), ("R_in_Cr", nr("y", "v1"), nr("y", "v2"), "v1", "v2", +1),
            ("G_in_Y", ng("y1", "u", "v"), ng("y2", "u", "v"), "y1", "y2", +1), ("G_in_Cb", ng("y", "u1", "v"), ng("y", "u2", "v"), "u1", "u2", -1),
            ("G_in_Cr", ng("y", "u", "v1"), ng("y", "u", "v2"), "v1", "v2", -1),
            ("B_in_Y", nb("y1", "u"), nb("y2", "u"), "y1", "y2", +1), ("B_in_Cb", nb("y", "u1"), nb("y", "u2"), "u1", "u2", +1)]
    for nm, n1, n2, a, b, sgn in mono:
        t = HDR + dom("y", "u", "v", "y1", "y2", "u1", "u2", "v1", "v2") + floor_def("c1", n1) + floor_def("c2", n2)
        t += "(assert (<= %s %s))\n(assert (%s c1 c2))\n(check-sat)\n(get-model)\n" % (a, b, ">" if sgn > 0 else "<")
        out.append(("c07_smt_monotone_%s" % nm, t, "fixed-point channel monotone: %s" % nm))
    return out


def spec(tier, seed):
    jobs = [Job("yuv", "c07_kernel_formula_tied", 900, group="kernel"),
            Job("yuv", "c07_oracle_defining", 900, group="oracle")]
    for name, text, note in smt_jobs():
        jobs.append(Job("yuv", name, 120, group="oracle-smt", kind="smt", smt=text, note=note))
    if tier == "thorough":
        jobs.append(Job("yuv", "c07_monotone", 2400, group="monotone"))
        jobs.append(Job("yuv", "c07_kernel_formula", 3000, group="kernel"))
        jobs.append(Job("yuv", "c07_twin_must_fail", 600, expect="fail", group="twin"))
    return {
        "jobs": jobs, "generated": {},
        "functions": FUNCS, "stubs": STUBS,
        "rule": "all input bytes of the 4-pixel kernel symbolic: (quick) one colour in all four lanes, lane index symbolic; (thorough) 4 luma + 2x2 chroma bytes independent = all 2^24 colours in every lane and lane pairing, plus monotonicity directly on the kernel; oracle = 16.16 fixed-point formula; the oracle is tied to its defining inequalities by Kani and from those shown within 1 of the exact rational BT.601 formula and monotone in each component by z3+cvc5 (integer arithmetic, 10 queries)",
        "bounds": ["no bound on values: every (Y,Cb,Cr) byte triple"],
        "outside": ["big-endian cfg branch of the byte interleave (not compiled on this target)"],
        "assumptions": ["BT.601 constants 0.299/0.587/0.114, 1.402, 1.772, ranges 219/224 as in the property text", "intrinsic stubs implement the Intel SDM semantics",
                        "SMT side obligations concern the harness oracle only; they are generated from the constants in harness/yuv/src/bt601.rs.inc"],
    }
