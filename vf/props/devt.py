from vf.driver import Job
def spec(tier, seed):
    return {"jobs": [Job("h263", "c14_twin_must_fail", 600, expect="fail")], "generated": {}}
