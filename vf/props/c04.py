from vf import core_scenarios as cs, core_meta as m
from vf.driver import Job


def spec(tier, seed):
    gen, jobs = cs.jobs_for(tier, seed, quick_n=12)
    generated = {"h263/src/decoder/state.rs": gen}

    jobs.append(Job("h263", "c04_cleanup_changes_nothing", 900, tagged=True, group="cleanup"))
    from vf.props import c01_parser
    pj, pgen = c01_parser.jobs(tier, seed, only_c04=True)
    jobs += pj
    for k, v in pgen.items():
        generated[k] = generated.get(k, "") + v

    return {"jobs": jobs, "generated": generated, "functions": m.FUNCS + EXTRA_FUNCS, "stubs": m.STUBS, "rule": m.RULE + " " + RULE_EXTRA,
            "bounds": BOUNDS, "outside": m.OUTSIDE + OUTSIDE_EXTRA, "assumptions": m.ASSUME}


EXTRA_FUNCS = []
RULE_EXTRA = 'C04 assertions: the most recent picture is the one just decoded; a predicted picture carries the tag of the reference picture of the pre-state; I/P become the reference; a disposable picture leaves reference key, tag and size untouched; cleanup_buffers changes nothing observable (from any state, twice).'
BOUNDS = ['one step from every pre-state shape; 8-bit temporal references symbolic incl. equal values', 'thorough: all scenarios of vf/core_scenarios.py; quick: seeded sample']
OUTSIDE_EXTRA = ['10-bit temporal references (custom clock)']
