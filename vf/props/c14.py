from vf.driver import Job
from vf import gen_reader as g

FUNCS = ["h263-rs::parser::reader::H263Reader<&[u8]>::{from_source, buffer_bytes, needed_bytes_for_bits, ensure_bits, peek_bits, skip_bits, read_bits, peek_signed_bits, read_signed_bits, read_u8, realignment_bits, recognize_start_code, read_vlc, checkpoint, rollback, commit, with_transaction, with_transaction_union, with_lookahead} on the real VecDeque buffer",
         "Error::is_eof_error on real io::Error values"]


def spec(tier, seed):
    hs = g.build(tier, seed)
    gen, jobs, nseq = "", [], 0
    for (name, L, chunk, unwind) in hs:
        gen += g.harness_src(name, L, chunk, unwind)
        nseq += len(chunk)
        jobs.append(Job("h263", name, 900 if tier == "quick" else 5400, params={"source_bytes": L, "sequences": [g.describe(p, ops) for p, ops in chunk]}, group="sequences"))
    if tier == "thorough":
        jobs.append(Job("h263", "c14_twin_must_fail", 600, expect="fail", group="twin"))
    return {
        "jobs": jobs, "generated": {"h263/src/parser/reader.rs": gen},
        "functions": FUNCS, "stubs": [],
        "rule": "operation sequences enumerated by the generator (%d sequences in %d harnesses this run): skip p; read n for phases 0..7 x widths (all 0..32 in thorough); one step of every symbol of a %d-symbol alphabet of (operation, width) from every buffer fill level and phase (seeded 1/6 sample in thorough, 28 in quick); seeded ordered pairs of fixed-width operations followed by a third symbol (300 in thorough, 10 in quick); seeded random sequences of length 3..6; sources of 0..5 bytes for end-of-data straddling. Source bytes fully symbolic. After every operation value, Ok/Err kind and absolute position are compared with a bit-vector model; finally the next bits are read through the public API." % (nseq, len(hs), len(g.SYMS)),
        "bounds": ["source length 6 bytes (0..5 for the end-of-data family)", "operation widths from the alphabet; sequence length <= 6", "unwind 12 (50 where the resynchronising start-code search runs) with unwinding assertions"],
        "outside": ["symbolic widths / lengths (CBMC does not terminate on them: DESIGN.md probe log)", "sources longer than 6 bytes", "Read implementations that return short reads or transient errors", "signed reads of zero bits (undefined notion)",
                    "position after a *failed* variable-length-code read outside a transaction (documented as undefined by the reader)", "commit inside an open transaction (documented as invalid)"],
        "assumptions": ["the bit-vector model in harness/h263/src/parser/reader.rs.inc states the property"],
    }
