from vf.driver import Job
from vf import gen_h263 as g
import random

FUNCS = ["h263-rs::decoder::cpu::mvd_pred::{halfpel_decode, mv_decode, predict_candidate}",
         "h263-rs::types::HalfPel::{invert, is_mv_within_range, average_sum_of_mvs, median_of, into_lerp_parameters, from(f32)}, MotionVector::{median_of, average_sum_of_mvs}"]


def spec(tier, seed):
    jobs = [Job("h263", "c12_halfpel_decode_all_pairs", 600), Job("h263", "c12_mv_decode_both_components", 900),
            Job("h263", "c12_chroma_rounding", 600), Job("h263", "c12_chroma_rounding_total", 300),
            Job("h263", "c12_median", 600), Job("h263", "c12_from_f32", 600), Job("h263", "c03_lerp_parameters", 300)]
    cands = g.cand_all()
    if tier == "quick":
        rnd = random.Random(seed)
        fixed = [(1, 0), (1, 2), (2, 3), (3, 0), (3, 5)]
        cands = fixed + rnd.sample([c for c in cands if c not in fixed], 3)
    else:
        jobs.append(Job("h263", "c12_twin_must_fail", 600, expect="fail", group="twin"))
    gen = ""
    for (w, c) in sorted(set(cands)):
        gen += g.cand_instance(w, c)
        jobs.append(Job("h263", g.cand_name(w, c), 900, params={"mb_per_line": w, "current_mb": c}, group="candidates",
                        allow_uncovered=("block 0 non-zero predictor",) if (w == 1 or c == 0) else ()))
    return {
        "jobs": jobs, "generated": {"h263/src/decoder/cpu/mvd_pred.rs": gen},
        "functions": FUNCS, "stubs": [],
        "rule": "predictor and differential symbolic over the whole half-sample range -32..31 (64x64 pairs) in each component, every option set without the unrestricted-vector mode; chroma rounding for every i16 sum (Table 16 on |sum|); median against sorting for all i16 triples; candidate predictors with symbolic neighbour vectors and symbolic block index for enumerated (macroblocks per line, macroblock number)",
        "bounds": ["candidates: mb_per_line x current_mb in " + ", ".join("%dx%d" % c for c in sorted(set(cands))), "neighbour vector components -2048..2047"],
        "outside": ["unrestricted motion vector modes (Annex D) beyond absence of panics", "pictures wider than 3 macroblocks (neighbour classes are already all present)", "GOB headers between macroblocks",
                    "Table 14 code -> differential mapping is decided by the parser-table harness (see C03/C12 in DESIGN.md)"],
        "assumptions": ["6.1.1 border rules and Figure F.2 candidates as transcribed in the harness"],
    }
