from vf.driver import Job
from vf import gen_h263 as g
import random

FUNCS = ["h263-rs::parser::picture::decode_picture and all helpers (decode_ptype, decode_plusptype, decode_sorenson_ptype, decode_cpm_and_psbi, decode_cpfmt, decode_cpcfc, decode_uui, decode_sss, decode_elnum_rlnum, decode_rpsmf, decode_trpi, decode_bcm, decode_rprp, decode_trb, decode_dbquant, decode_pei)",
         "h263-rs::parser::reader::H263Reader::{read_bits, read_u8, recognize_start_code, with_transaction, with_transaction_union, with_lookahead, checkpoint} as compiled"]
STUBS = ["H263Reader::{peek_bits, skip_bits, rollback, commit} -> bit-vector model reader over a 256-bit symbolic stream (C14 proves the real primitives equal this model); native replay uses the real reader"]


def spec(tier, seed):
    rnd = random.Random(seed)
    gen, jobs = "", []
    if tier == "quick":
        sor = [0, rnd.randrange(1, 8)]
        std = [(0, 0, False, False), (rnd.randrange(1, 8), 0, False, True), (0, 2, False, True), (0, 3, False, False), (0, 1, False, True), (0, 2, True, False)]
    else:
        sor = list(range(8))
        std = [(p, k, s, pv) for p in range(8) for k in range(4) for (s, pv) in ((False, False), (False, True), (True, True))]
    for p in sor:
        gen += g.hdr_sorenson(p)
        jobs.append(Job("h263", g.hdr_sorenson_name(p), 1800, params={"mode": "sorenson", "phase": p}, group="sorenson"))
    for (p, k, s, pv) in std:
        if k == 0 and s:
            continue
        gen += g.hdr_std(p, k, s, pv)
        unc = []
        if k < 3:
            unc += ["largest custom size", "extended PAR"]
        if k < 2:
            unc += ["rectangular, sequential slices", "extended temporal reference"]
        if not (k == 1 and pv):
            unc += ["inherited optional mode"]
        jobs.append(Job("h263", g.hdr_std_name(p, k, s, pv), 2400, allow_uncovered=tuple(unc), params={"mode": "standard", "phase": p, "kind": ["PTYPE", "PLUSPTYPE UFEP=000", "PLUSPTYPE UFEP=001", "PLUSPTYPE UFEP=001 + CPFMT"][k], "scalability": s, "previous_header": pv}, group="standard"))
    from vf import core_scenarios as cs
    cgen, cjobs = cs.jobs_for('quick', seed, quick_n=6 if tier == 'quick' else 30)
    jobs += [j for j in cjobs if not j.is_kf_twin]
    CORE_GEN = cgen
    return {
        "jobs": jobs, "generated": {"h263/src/parser/picture.rs": gen, "h263/src/decoder/state.rs": CORE_GEN},
        "functions": FUNCS, "stubs": STUBS,
        "rule": "all 256 stream bits symbolic (so every field value and every combination of fields, incl. all Sorenson 8/16-bit sizes, all PTYPE/OPPTYPE/MPPTYPE patterns, CPFMT, EPAR, CPCFC+ETR, UUI, SSS, ELNUM/RLNUM, RPSMF, TRPI/TRP, BCI, PQUANT, CPM/PSBI, TRB, DBQUANT, up to 2 PEI bytes); structure enumerated: mode x start phase 0..7 (= 0..7 stuffing bits) x header kind (PTYPE / PLUSPTYPE UFEP=000 / UFEP=001 / UFEP=001+custom format) x scalability x previous header present; oracle: reference header parser written from H.263 5.1 (accept/reject, every public field, consumed bit count)",
        "bounds": ["stream of 256 bits; at most 2 PEI bytes", "unwind 11 with unwinding assertions"],
        "outside": ["more than 2 extra-information bytes", "headers using annexes the decoder does not implement (BCI=1 back-channel messages, RPRP): excluded by assumption", "picture height indication 0 or > 288 in CPFMT", "previous header with a different source format (needs Annex P)", "baseline PTYPE headers with the scalability option"],
        "assumptions": ["reference parser in harness/h263/src/parser/picture.rs.inc transcribes H.263 (01/2005) 5.1 and the Sorenson header layout", "model reader == real reader (C14)"],
    }
