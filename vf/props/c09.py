from vf.driver import Job
from vf import gen_deblock as g

FUNCS = ["h263-rs-deblock::deblock::scalar_impl::process (+ up_down_ramp, clipd1)",
         "h263-rs-deblock::deblock::simd_impl::process_simd (+ signum_simd, clamp_simd, up_down_ramp_simd, clipd1_simd, into_simd16; wide::i16x8 SSE2 path)",
         "h263-rs-deblock::deblock::deblock", "deblock_horiz", "deblock_vert"]
STUBS = ["core::arch::x86_64::_mm_sra_epi16 -> lane-wise arithmetic shift (Intel SDM PSRAW)",
         "core::arch::x86_64::_mm_max_epi16 / _mm_min_epi16 -> lane-wise max/min (PMAXSW/PMINSW); every other wide/safe_arch op runs as compiled"]


def spec(tier, seed):
    jobs = [Job("deblock", "c09_scalar_kernel", 300, group="kernel"),
            Job("deblock", "c09_simd_kernel", 600, group="kernel"),
            Job("deblock", "c09_simd_equals_scalar", 600, group="kernel")]
    gen = ""
    if tier == "quick":
        corner, sizes = g.quick_sizes(seed, 4)
        sizes = [s for s in sizes] + [(9, 9), (10, 2)]
    else:
        # all loop-structure classes with at most 200 samples (larger members of the grid cost > 15 min / > 8 GB each)
        sizes = [s for s in g.all_sizes() if s[1] >= 2 and s[0] >= 1 and s[0] * s[1] <= 200]
        jobs.append(Job("deblock", "c09_twin_must_fail", 300, expect="fail", group="twin"))
    for (w, h) in sorted(set(sizes)):
        gen += g.instance("c09", w, h)
        jobs.append(Job("deblock", g.name("c09", w, h), 1500 if tier == "thorough" else 900, params={"w": w, "h": h},
                        group="image", weight=w * h, allow_uncovered=g.expected_uncovered(w, h)))
    return {
        "jobs": jobs,
        "generated": {"deblock/src/deblock.rs": gen},
        "functions": FUNCS, "stubs": STUBS,
        "rule": "kernels: A,B,C,D (2^32 patterns) x strength 1..12 x lane index all symbolic; whole image: image bytes, strength and the checked sample position (x,y) symbolic, sizes enumerated from 12 widths x 11 heights (quick: 2 fixed + seeded sample)",
        "bounds": ["kernel harnesses: no bound on values (all 2^32 x 12 x 8 lanes)",
                   "image harnesses: sizes " + ", ".join("%dx%d" % s for s in sorted(set(sizes))), "unwind 9 with unwinding assertions"],
        "outside": ["image sizes not in the enumerated set (in particular widths/heights >= 20, and grid members with more than 200 samples such as 19x18)", "strength outside 1..12 (excluded by the property)"],
        "assumptions": ["Annex J oracle transcribed from H.263 (01/2005) J.3 with '/' truncating toward zero",
                        "intrinsic stubs implement the Intel SDM semantics", "rustc/Kani/CBMC are trusted"],
    }
