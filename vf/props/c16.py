from vf.driver import Job
from vf import gen_deblock as g
from vf.props import c09


def spec(tier, seed):
    jobs = [Job("deblock", "c16_table_j2", 300, group="table")]
    if tier == "quick":
        sizes = [(1, 0), (1, 1), (9, 1), (16, 0), (10, 1), (17, 1), (2, 2), (9, 9), (8, 10), (10, 2), (11, 7), (16, 2)]
    else:
        sizes = [(w, h) for (w, h) in g.all_sizes() if h <= 2 or w < 10 or (w * h <= 110)]
        jobs.append(Job("deblock", "c09_twin_must_fail", 300, expect="fail", group="twin"))
    gen = ""
    for (w, h) in sorted(set(sizes)):
        gen += g.instance("c16", w, h)
        jobs.append(Job("deblock", g.name("c16", w, h), 1500, params={"w": w, "h": h}, group="image", weight=w * h + 1,
                        allow_uncovered=g.expected_uncovered(w, h)))
    return {
        "jobs": jobs,
        "generated": {"deblock/src/deblock.rs": gen},
        "functions": c09.FUNCS + ["QUANT_TO_STRENGTH"], "stubs": c09.STUBS,
        "rule": "deblock() on images of enumerated sizes (all with fewer than two rows or fewer than ten columns from the 12x11 size grid, plus small images with edges) with symbolic content and symbolic strength 1..12: Kani's panic/overflow/bounds checks + output == Annex J model (== input where no edge is filterable); QUANT_TO_STRENGTH[q] == Table J.2 for symbolic q",
        "bounds": ["sizes " + ", ".join("%dx%d" % s for s in sorted(set(sizes))), "strength 1..12 symbolic", "q 1..31 symbolic", "unwind 9 with unwinding assertions"],
        "outside": ["sizes not enumerated (widths > 19, heights > 18)", "width 0 (excluded by the property: width of at least one)"],
        "assumptions": ["Table J.2 transcribed from H.263 (01/2005) Annex J", "data.len() is a multiple of width (property precondition)"] ,
    }
