from vf.driver import Job
import os
def spec(tier, seed):
    names = os.environ.get("DEV_H", "").split(",")
    crate = os.environ.get("DEV_CRATE", "h263")
    return {"jobs": [Job(crate, n, int(os.environ.get("DEV_T", "900"))) for n in names if n], "generated": {}}
