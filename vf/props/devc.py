from vf.driver import Job
from vf import gen_h263 as g
import os
# DEVC items:  z:W:H:SHAPE   or   c:CLASS:SHAPE:HK:MB,MB,...[:bi,bj,code]
def spec(tier, seed):
    gen, jobs = "", []
    for idx, item in enumerate(os.environ.get("DEVC", "z:0:0:0").split(";")):
        parts = item.split(":")
        if parts[0] == "z":
            w, h, sh = int(parts[1]), int(parts[2]), int(parts[3])
            gen += g.core_zero(w, h, sh); jobs.append(Job("h263", g.core_zero_name(w, h, sh), int(os.environ.get("DEV_T", "900")), tagged=True))
        else:
            c, sh, hk = int(parts[1]), int(parts[2]), int(parts[3])
            mbs = [int(x) for x in parts[4].split(",")] if len(parts) > 4 and parts[4] else []
            be = tuple(int(x) for x in parts[5].split(",")) if len(parts) > 5 else None
            sc = g.Scenario(hk, mbs, be)
            gen += g.core_c1(c, sh, idx, sc); jobs.append(Job("h263", g.core_c1_name(c, sh, idx), int(os.environ.get("DEV_T", "900")), tagged=True, params={"scenario": sc.describe()}))
    return {"jobs": jobs, "generated": {"h263/src/decoder/state.rs": gen}}
