from vf.driver import Job
from vf import gen_h263 as g
import os
def spec(tier, seed):
    gen, jobs = "", []
    for item in os.environ.get("DEVC", "z:0:0").split(","):
        parts = item.split(":")
        if parts[0] == "z":
            w, h = int(parts[1]), int(parts[2])
            gen += g.core_zero(w, h); jobs.append(Job("h263", g.core_zero_name(w, h), int(os.environ.get("DEV_T", "900"))))
        else:
            c, n, s = int(parts[1]), int(parts[2]), int(parts[3])
            gen += g.core_c1(c, n, s); jobs.append(Job("h263", g.core_c1_name(c, n, s), int(os.environ.get("DEV_T", "900"))))
    return {"jobs": jobs, "generated": {"h263/src/decoder/state.rs": gen}}
