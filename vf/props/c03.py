from vf.driver import Job
from vf import gen_h263 as g, core_scenarios as cs, core_meta as m
from vf.props import c12
import random


def spec(tier, seed):
    jobs, gen_g = [], ""
    blocks = g.gblock_all() if tier == "thorough" else g.gblock_small()[:5] + [(16, 8, 8, 0)]
    rnd = random.Random(seed)
    for (w, h, px, py) in blocks:
        sl = g.gblock_slices(w, h, px, py)
        if tier == "quick":
            # the slice around the zero vector plus one seeded slice
            mid = [x for x in sl if x[0] <= 0 <= x[1]]
            if (w, h, px, py) in g.gblock_big():
                sl = [x for x in sl if x[0] <= 2 <= x[1]]     # the slice that holds the fast path's right boundary (+1 sample)
            else:
                sl = mid + rnd.sample([x for x in sl if x not in mid], 1)
        for (mx0, mx1, ry) in sl:
            gen_g += g.gblock(w, h, px, py, mx0, mx1, ry)
            jobs.append(Job("h263", g.gblock_name(w, h, px, py, mx0), 5400 if (w, h, px, py) in g.gblock_big() else 1800, tagged=False, group="half-sample interpolation",
                            params={"plane": "%dx%d" % (w, h), "block_at": [px, py], "vector_x_half_samples": [mx0, mx1], "vector_y_half_samples": [-ry, ry]},
                            allow_uncovered=("a sample inside the block checked",) if (px >= w or py >= h) else ()))
    jobs.append(Job("h263", "c03_gather_wiring", 2400, tagged=False, group="prediction wiring"))
    jobs.append(Job("h263", "c03_lerp_parameters", 300, tagged=False, group="half-sample split"))
    # vectors: the C12 obligations are part of the C03 claim
    c12spec = c12.spec(tier, seed)
    generated = {"h263/src/decoder/cpu/gather.rs": gen_g}
    for k, v in c12spec["generated"].items():
        generated[k] = generated.get(k, "") + v
    jobs += [j for j in c12spec["jobs"] if j.expect == "pass" and j.harness != "c03_lerp_parameters"]
    # not-coded / early-end / missing-reference handling: decoder-core scenarios (tagged C04 assertions on the prediction source apply to C03 as well)
    return {"jobs": jobs, "generated": generated,
            "functions": ["h263-rs::decoder::cpu::gather::{gather, gather_block, read_sample, lerp}", "HalfPel::{into_lerp_parameters, average_sum_of_mvs}"] + c12.FUNCS,
            "stubs": ["gather_block -> tagging stand-in (marks the block origin with a digest of plane identity and vector) in c03_gather_wiring only; the interpolation harnesses run the real gather_block"],
            "rule": "stage-wise (DESIGN.md 3/C02-C03): (1) gather_block == half-sample bilinear interpolation with upward rounding and edge clamp for symbolic reference and target contents and a symbolic checked sample; vectors enumerated exhaustively over a window that reaches beyond every edge by more than the plane size (small planes) / over -5..5 half samples (planes with full 8x8 blocks and the copy fast path); plane sizes and block origins enumerated (incl. blocks partly or wholly outside the plane); samples outside the block untouched; "
                    "(2) gather(): which vector predicts which block, chroma vector = Table 16 rounding of the sum of the four luma vectors, intra macroblocks not predicted, missing reference => error, for symbolic types and vectors of a two-macroblock picture; (3) all C12 vector obligations.",
            "bounds": ["interpolation harness instances (plane WxH, block origin): " + ", ".join("%dx%d@(%d,%d)" % b for b in blocks) + " - quick runs the small planes only; full 8x8 blocks incl. the copy fast path are thorough-tier", "gather wiring: 32x16 picture"],
            "outside": ["the end-to-end composition bytes -> pixels is an argument over the stage interfaces, not one query", "residual addition is the idct stage (C02)", "picture sizes beyond the enumerated ones",
                        "not-coded / early-end copies: decided at the level 'such macroblocks are predicted with the zero vector from the reference' (decoder-core scenarios + interpolation harness with vector 0)"],
            "assumptions": ["H.263 6.1.2 bilinear interpolation with rounding control 0; Annex D edge extrapolation"]}
