from vf.driver import Job
from vf import gen_deblock as gd, gen_yuv as gy
from vf.props import c09, c08
import random


def spec(tier, seed):
    jobs = [Job("h263", "c13_plane_sizes_all_dimensions", 900, group="sizing"),
            Job("h263", "c13_plane_sizes_standard_formats", 600, group="sizing")]
    if tier == "quick":
        pics = [(1, 1), (5, 3), (13, 2), (2, 1), (11, 10)]
        rnd = random.Random(seed)
        pics += rnd.sample([(w, h) for w in range(1, 14) for h in range(1, 7) if (w, h) not in pics], 2)
    else:
        pics = [(w, h) for w in range(1, 14) for h in range(1, 7)] + [(11, 10), (17, 9), (18, 11), (19, 18), (16, 16)]
    gen_d, gen_y = "", ""
    dsizes, ysizes = set(), set()
    for (w, h) in pics:
        dsizes.add((w, h))
        dsizes.add(((w + 1) // 2, (h + 1) // 2))
        if w * h <= 13 * 6 or tier == "thorough" and w * h <= 200:
            ysizes.add((w, h))
    for (w, h) in sorted(dsizes):
        gen_d += gd.instance("c13", w, h, from_quant=True)
        jobs.append(Job("deblock", gd.name("c13", w, h), 1800, params={"plane_w": w, "plane_h": h}, group="deblock", weight=w * h,
                        allow_uncovered=gd.expected_uncovered(w, h)))
    for (w, h) in sorted(ysizes):
        gen_y += gy.instance("c13", w, h)
        jobs.append(Job("yuv", gy.name("c13", w, h), 1200, params={"w": w, "h": h}, group="rgba", weight=w * h, allow_uncovered=gy.uncovered(w, h)))
    from vf import core_scenarios as cs
    cgen, cjobs = cs.jobs_for('quick', seed, quick_n=6 if tier == 'quick' else 30)
    jobs += [j for j in cjobs if not j.is_kf_twin]
    CORE_GEN = cgen
    return {
        "jobs": jobs,
        "generated": {"deblock/src/deblock.rs": gen_d, "yuv/src/bt601.rs": gen_y, "h263/src/decoder/state.rs": CORE_GEN},
        "functions": ["h263-rs::decoder::picture::DecodedPicture::{new, as_yuv, as_luma, as_chroma_b, as_chroma_r, chroma_samples_per_row, luma_samples_per_row, format}"] + c09.FUNCS + c08.FUNCS,
        "stubs": c09.STUBS + ["yuv_to_rgba_4x -> transparent kernel (C07 covers the arithmetic)"],
        "rule": "plane sizing: width and height both symbolic over all u16 pairs with w*h <= 2^22 in one query; then for enumerated picture sizes the luma plane (w x h) and the chroma plane (ceil(w/2) x ceil(h/2)) go through deblock() with strength QUANT_TO_STRENGTH[q], q symbolic 1..31, and the three planes through yuv420_to_rgba: no panic, output lengths w*h resp. 4*w*h; content symbolic",
        "bounds": ["picture sizes for the post-processing stages: " + ", ".join("%dx%d" % s for s in sorted(set(pics)))],
        "outside": ["post-processing at sizes not enumerated", "the three stages are composed through the proved size relations, not in one query (the crates do not depend on each other)"],
        "assumptions": ["decoder-core step scenarios (tagged [C13] assertions): every successfully decoded and stored picture has planes of exactly the sizes DecodedPicture::new gives"],
    }
