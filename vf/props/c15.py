from vf.driver import Job
from vf import core_scenarios as cs, core_meta as m
from vf.props import c06


def spec(tier, seed):
    gen, jobs = cs.jobs_for(tier, seed, quick_n=8)
    generated = {"h263/src/decoder/state.rs": gen}
    # the next picture's start code is found after 0..7 zero padding bits at every reader phase: header harnesses of C06
    c6 = c06.spec(tier, seed)
    generated["h263/src/parser/picture.rs"] = c6["generated"]["h263/src/parser/picture.rs"]
    jobs += [j for j in c6["jobs"] if j.harness.startswith("c06_") and ("sorenson" in j.harness or "_k0_" in j.harness)]
    from vf import gen_reader as gr
    rgen = ""
    hs = [h for h in gr.build(tier, seed) if any(o[0] == "commit" for (_, ops) in h[2] for o in ops)]
    for (name, L, chunk, unwind) in (hs if tier == "thorough" else hs[:5]):
        rgen += gr.harness_src(name, L, chunk, unwind)
        jobs.append(Job("h263", name, 900, group="reader: commit keeps the position (also at byte boundaries)", params={"sequences": [gr.describe(p_, o_) for p_, o_ in chunk]}))
    generated["h263/src/parser/reader.rs"] = rgen
    return {"jobs": jobs, "generated": generated, "functions": m.FUNCS + c06.FUNCS, "stubs": m.STUBS + c06.STUBS,
            "rule": m.RULE + " C15 assertions: after a successful call the reader stands at a record boundary and no record beyond the picture's last macroblock was consumed (scenarios with more macroblock records than the picture holds: the rest is left for the next call); "
                    "the header harnesses show that the next call finds a picture start code behind 0..7 zero padding bits at every bit phase, in Sorenson and standard mode, and consumes exactly the header.",
            "bounds": ["pictures of one macroblock (2x2 in thorough) followed by further records", "padding 0..7 bits (8 start phases)"],
            "outside": m.OUTSIDE + ["bit-exact consumption of the real macroblock/block parsers is by the parser layer (C01), not re-proved here", "equality of N concatenated pictures with N separately supplied ones is derived: same start state + same records consumed => same step (C17 determinism)"],
            "assumptions": m.ASSUME}
