from vf.driver import Job
from vf import gen_yuv as g

FUNCS = ["h263-rs-yuv::bt601::yuv420_to_rgba (row loop, bytemuck::cast_slice chunking, remainder-columns path, empty shortcut)"]


def spec(tier, seed):
    sizes = g.quick_sizes(seed, 6) if tier == "quick" else g.all_sizes()
    gen, jobs = "", []
    for (w, h) in sorted(set(sizes)):
        gen += g.instance("c08", w, h)
        jobs.append(Job("yuv", g.name("c08", w, h), 1200, params={"w": w, "h": h}, weight=w * h + 1, allow_uncovered=g.uncovered(w, h)))
    return {
        "jobs": jobs, "generated": {"yuv/src/bt601.rs": gen},
        "functions": FUNCS,
        "stubs": ["yuv_to_rgba_4x -> transparent kernel [Y,Cb,Cr,255] per lane (separates wiring from arithmetic; arithmetic is C07); native replay uses the real kernel"],
        "rule": "sizes enumerated (thorough: every w in 1..13 x h in 1..6 plus 0x0 = every w mod 4, w mod 2, h parity, 1-3 SIMD groups; quick: 6 fixed + 6 seeded); all plane bytes and the checked pixel position symbolic; oracle: out[4(yw+x)..] == conv(Y[y][x], Cb[y/2][x/2], Cr[y/2][x/2]) and len == 4wh; Kani panic/bounds/overflow checks",
        "bounds": ["sizes " + ", ".join("%dx%d" % s for s in sorted(set(sizes)))],
        "outside": ["sizes beyond 13x6 (index expressions are affine in w,h; not proved inductively)", "planes that violate the documented size preconditions"],
        "assumptions": ["planes have the documented sizes: luma w*h, chroma ceil(w/2)*ceil(h/2)"],
    }
