from vf.props import c01_parser
def spec(tier, seed):
    jobs, gen = c01_parser.jobs("quick", seed)
    return {"jobs": jobs, "generated": gen}
