from vf.driver import Job
from vf import gen_reader as g
import os
SEQS = [
 (6, 3, [("start_code",())]),
 (6, 3, [("vlc_fixed",(2,))]),
 (6, 3, [("vlc",())]),
 (6, 3, [("txn_fail",(9,))]),
 (6, 3, [("txn_fail_vlc",(9,))]),
 (6, 3, [("start_code_resync",())]),
 (6, 3, [("read_u32",(13,)), ("start_code",())]),
 (6, 3, [("lookahead",(32,)), ("skip",(7,)), ("vlc",())]),
 (3, 3, [("start_code",())]),
 (3, 3, [("start_code_resync",())]),
 (6, 3, [("vlc_bad_table",())]),
 (6, 3, [("lookahead", (32,)), ("skip", (16,)), ("lookahead", (32,)), ("read_s_i32",(23,))]),
 (6, 3, [("lookahead", (32,)), ("skip", (20,)), ("commit", ()), ("start_code",())]),
]
def spec(tier, seed):
    gen, jobs = "", []
    for i,(L,p,ops) in enumerate(SEQS):
        name = "devr_%02d" % i
        gen += g.harness_src(name, L, [(p,ops)], 50 if g.needs_big_unwind([(p,ops)]) else 12)
        jobs.append(Job("h263", name, 300, params={"seq": g.describe(p,ops)}))
    return {"jobs": jobs, "generated": {"h263/src/parser/reader.rs": gen}}
