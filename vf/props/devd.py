from vf.driver import Job
from vf import gen_h263 as g
import os
def spec(tier, seed):
    gen, jobs = "", []
    extra = os.environ.get("DEVX", "--max-field-sensitivity-array-size 200").split()
    S = g.Scenario
    for name, shape, obs, sc in [("devd_m", 3, True, S(0, [1, 3], pt=2, fk=7)), ("devd_n", 2, True, S(0, [1, 1, 3], pt=1, fk=7)),
                                 ("devd_o", 3, True, S(0, [3], pt=2, fk=7)), ("devd_p", 1, True, S(0, [1, 3], pt=1, fk=7))]:
        gen += g.dev_core(name, shape, obs, sc)
        jobs.append(Job("h263", name, 900, tagged=True, cbmc_args=extra))
    return {"jobs": jobs, "generated": {"h263/src/decoder/state.rs": gen}}
