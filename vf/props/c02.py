from vf.driver import Job
from vf import gen_h263 as g
from vf.props import c11


def spec(tier, seed):
    jobs, gen_i = [], ""
    sizes = g.idct_sizes() if tier == "thorough" else [(5, 3), (17, 9), (16, 16)]
    for (w, h) in sizes:
        for bi in g.idct_dc_blocks(w, h):
            gen_i += g.idct_inst("dc", w, h, bi)
            jobs.append(Job("h263", g.idct_name("dc", w, h, bi), 2400, tagged=False, group="inverse transform: zero / DC-only blocks", params={"plane": "%dx%d" % (w, h), "dc_block": bi},
                            allow_uncovered=("last sample of a cropped block", "rounding boundary (x.5)", "most negative coefficient")))
    jobs.append(Job("h263", "c02_basis_table", 300, tagged=False, group="basis constants"))
    jobs.append(Job("h263", "c02_idct_1d_one_hot", 1200, tagged=False, group="1-D transform wiring"))
    for (w, h) in sizes:
        gen_i += g.idct_inst("contract", w, h)
        for (nm, b_, v_) in g.idct_contract_instances(w, h):
            jobs.append(Job("h263", nm, 1200, tagged=False, group="inverse transform: every sparsity variant stays inside its block and the plane", params={"plane": "%dx%d" % (w, h), "block": b_, "variant": ["", "Dc", "Horiz", "Vert", "Full"][v_]}))
    c11spec = c11.spec(tier, seed)
    jobs += [j for j in c11spec["jobs"] if j.expect == "pass"]
    generated = {"h263/src/decoder/cpu/idct.rs": gen_i}
    for k, v in c11spec["generated"].items():
        generated[k] = generated.get(k, "") + v
    return {"jobs": jobs, "generated": generated,
            "functions": ["h263-rs::decoder::cpu::idct::{idct_channel (Zero and Dc variants, cropping, clip, add), idct_1d, BASIS_TABLE}"] + c11.FUNCS,
            "stubs": [],
            "rule": "stage-wise (DESIGN.md 3/C02-C03): (1) dequantisation / zig-zag / INTRADC = all C11 obligations; (2) blocks that are empty or DC-only reconstruct exactly: sample = clip(prediction + clip(round(DC/8), -256..255), 0..255) for every DC value -2048..2047, every prediction, at a symbolic sample of planes with cropped blocks; "
                    "(3) the 1-D transform weights coefficient k by basis function k at position i (one-hot inputs, exact products); (4) every basis constant within 1.2e-6 of C(u)cos((2x+1)u*pi/16).",
            "bounds": ["plane sizes " + ", ".join("%dx%d" % s for s in sizes), "up to 3 coefficient events per block (C11)"],
            "outside": ["dense multi-coefficient blocks through the floating-point transform (see C10: not applicable)", "the end-to-end composition header -> planes is an argument over the stage interfaces; plane sizes are C13, block positions/quantizer tracking the decoder-core contract stubs",
                        "Horiz / Vert / Full variants beyond index safety (c02_idct_contract_*) and the one-hot wiring of idct_1d"],
            "assumptions": ["an ideal IDCT of a DC-only block is the constant DC/8"]}
