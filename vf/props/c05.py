from vf import core_scenarios as cs, core_meta as m
from vf.driver import Job


def spec(tier, seed):
    gen, jobs = cs.jobs_for(tier, seed, quick_n=12)
    generated = {"h263/src/decoder/state.rs": gen}

    from vf import gen_reader as gr
    rgen = ""
    hs = [h for h in gr.build(tier, seed) if h[1] < 6]
    for (name, L, chunk, unwind) in (hs if tier == "thorough" else hs[:6]):
        rgen += gr.harness_src(name, L, chunk, unwind)
        jobs.append(Job("h263", name, 900, group="reader: failed reads at the end of short sources lose nothing", params={"source_bytes": L, "sequences": [gr.describe(p_, o_) for p_, o_ in chunk]}))
    generated["h263/src/parser/reader.rs"] = rgen
    return {"jobs": jobs, "generated": generated, "functions": m.FUNCS + EXTRA_FUNCS, "stubs": m.STUBS, "rule": m.RULE + " " + RULE_EXTRA,
            "bounds": BOUNDS, "outside": m.OUTSIDE + OUTSIDE_EXTRA, "assumptions": m.ASSUME}


EXTRA_FUNCS = []
RULE_EXTRA = 'C05 assertions: on Err the observable state (last/reference keys, pictures, tags, sizes, running options) equals the snapshot and the reader position is unchanged; failure depths enumerated: header (every outcome), macroblock header (every error kind, every GOB-probe answer), block data (blocks 0,3,4,5 of a macroblock), prediction without reference / with a reference of another size, zero sizes.'
BOUNDS = ['failure positions up to the second macroblock record']
OUTSIDE_EXTRA = ["'valid data afterwards decodes as if the failed call never happened' follows from state equality + determinism of the step (argument, C17)", 'retry after appending data to the source: reader-level only (C14 sequences with failing transactions)']
