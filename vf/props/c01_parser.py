"""parser layer of C01 (and the macroblock-syntax obligations shared with C04/C03): placeholder until the harnesses exist"""


def jobs(tier, seed):
    return [], {}
