"""parser layer of C01 (and the macroblock-syntax obligation of C04): assume-guarantee in two steps.
(1) the real VLC walk on each real table terminates within the longest code, consumes >= 1 bit, never sees a malformed
    table (c01_vlc_walk_*);  (2) decode_macroblock / decode_block / decode_gob with read_vlc abstracted to "some End entry
    of the table it was given, >= 1 bit consumed" satisfy the output contracts the decoder-core producers rely on."""
from vf.driver import Job
from vf import gen_h263 as g

FAST = ["--no-pointer-check"]
TABLES_MB = [("MCBPC_I_TABLE", 9), ("MCBPC_P_TABLE", 13), ("CBPY_TABLE_INTRA", 6), ("MVD_TABLE", 13), ("MODB_TABLE", 2)]


def jobs(tier, seed, only_c04=False):
    out, gen_mb, gen_blk = [], "", ""
    n = 16
    gen_mb += g.pdisp(n)
    out.append(Job("h263", g.pdisp_name(n), 2400, tagged=True, group="parser: macroblock syntax by picture type", params={"stream_bytes": n}))
    if only_c04:
        return out, {"h263/src/parser/macroblock.rs": gen_mb}
    for t, depth in TABLES_MB:
        gen_mb += g.walk(t, depth, t)
        out.append(Job("h263", g.walk_name(t), 1800, tagged=True, group="parser: real VLC walk", params={"table": t, "longest_code_bits": depth}))
    gen_blk += g.walk("TCOEF_TABLE", 13, "TCOEF_TABLE")
    out.append(Job("h263", g.walk_name("TCOEF_TABLE"), 2400, tagged=True, group="parser: real VLC walk", params={"table": "TCOEF_TABLE", "longest_code_bits": 13}))
    for pt, umv in [(0, False), (1, False), (2, False), (1, True)]:
        nn = 16 if not umv else 24
        gen_mb += g.pmb(nn, pt, umv)
        out.append(Job("h263", g.pmb_name(nn, pt, umv), 2400, tagged=True, group="parser: macroblock structure", params={"stream_bytes": nn, "picture": "IPD"[pt], "umv": umv},
                       unwind_by_fn={"read_umv": 14},
                       allow_uncovered=("four-vector macroblock parsed",) if pt == 0 else ()))
    gen_mb += g.pumv(4)
    out.append(Job("h263", g.pumv_name(4), 1800, tagged=True, group="parser: read_umv (real)", params={"stream_bytes": 4}, unwind_by_fn={"read_umv": 14}))
    for mode, intra in ([(0, True), (2, False)] if tier == "quick" else [(0, True), (0, False), (1, False), (2, True), (2, False)]):
        nn = 6
        gen_blk += g.pblk(nn, mode, intra, 9)
        out.append(Job("h263", g.pblk_name(nn, mode, intra), 3000, tagged=True, group="parser: block structure", params={"stream_bytes": nn, "mode": ["standard", "sorenson v0", "sorenson v1"][mode], "intra": intra},
                       allow_uncovered=("11-bit escape level",) if mode != 2 else ()))
    return out, {"h263/src/parser/macroblock.rs": gen_mb, "h263/src/parser/block.rs": gen_blk}
