from vf import core_scenarios as cs, core_meta as m
from vf.driver import Job
from vf import gen_h263 as g

def spec(tier, seed):
    gen, jobs = cs.jobs_for(tier, seed, quick_n=14)
    generated = {"h263/src/decoder/state.rs": gen}

    gen_g = ""
    for (rw, rh, nw, nh) in (g.gsize_all() if tier == "thorough" else g.gsize_all()[:4]):
        gen_g += g.gsize(rw, rh, nw, nh)
        jobs.append(Job("h263", g.gsize_name(rw, rh, nw, nh), 1200, group="callee: gather", params={"reference": "%dx%d" % (rw, rh), "new": "%dx%d" % (nw, nh)}))
    generated["h263/src/decoder/cpu/gather.rs"] = gen_g
    gen_i = ""
    for (w_, h_) in (g.idct_sizes() if tier == "thorough" else [(5, 3), (17, 9)]):
        gen_i += g.idct_inst("contract", w_, h_)
        for (nm, b_, v_) in g.idct_contract_instances(w_, h_):
            jobs.append(Job("h263", nm, 1200, tagged=True, group="callee: idct_channel", params={"plane": "%dx%d" % (w_, h_), "block": b_, "variant": ["", "Dc", "Horiz", "Vert", "Full"][v_]}))
    generated["h263/src/decoder/cpu/idct.rs"] = gen_i
    jobs.append(Job("h263", "c11_dequant_1_event", 900, group="callee: inverse_rle"))
    from vf.props import c01_parser
    pj, pgen = c01_parser.jobs(tier, seed)
    jobs += pj
    for k, v in pgen.items():
        generated[k] = generated.get(k, "") + v

    return {"jobs": jobs, "generated": generated, "functions": m.FUNCS + EXTRA_FUNCS, "stubs": m.STUBS, "rule": m.RULE + " " + RULE_EXTRA,
            "bounds": BOUNDS, "outside": m.OUTSIDE + OUTSIDE_EXTRA, "assumptions": m.ASSUME}


EXTRA_FUNCS = ['h263-rs::decoder::cpu::gather::{gather, gather_block, read_sample, lerp} (callee side)', 'h263-rs::decoder::cpu::idct::{idct_channel, idct_1d} (callee side)', 'h263-rs::decoder::cpu::rle::inverse_rle (callee side)', 'h263-rs::parser::{decode_macroblock, decode_block, decode_gob, read_vlc on every table, read_umv} over the model reader (parser layer)']
RULE_EXTRA = 'C01 = three layers: reader (C14 harnesses), parser (no panic / termination / output contracts for every bit pattern of a bounded stream), decoder core (this family) + callee side of every contract stub.'
BOUNDS = ['decoder core: see scenarios', 'callee harnesses: enumerated plane sizes, symbolic vectors/levels', 'parser: stream lengths stated per harness']
OUTSIDE_EXTRA = ['sizes beyond the enumerated ones']
