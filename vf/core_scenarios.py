"""Decoder-core step scenarios (structure concrete, data symbolic) shared by C01/C04/C05/C06/C13/C15/C17."""
import random
from vf import gen_h263 as g
from vf.driver import Job

S = g.Scenario
E = {n: i for i, n in enumerate(g.ERR_NAMES)}


def mberr(name):
    return 3 + E[name]


def hdrerr(name):
    return 2 + E[name]


def family(tier):
    """list of (class, shape, Scenario)"""
    out = []
    th = tier == "thorough"
    shapes = [0, 1, 2, 3]
    # header-level outcomes
    for hk in [g.H_NONE, hdrerr("Eof"), hdrerr("MiddleOfBitstream"), hdrerr("InvalidPType"), hdrerr("PictureFormatInvalid"), hdrerr("Unimplemented")]:
        for sh in (shapes if th else [0, 3]):
            out.append((1, sh, S(hk, [], pt=None, fk=None)))
    # good header, data ends before the first macroblock: every picture type x format source x pre-state shape
    for pt in (0, 1, 2):
        for fk in (7, 0, 6):
            for sh in shapes:
                out.append((1, sh, S(0, [mberr("Eof")], pt=pt, fk=fk)))
    # other picture types (PB, B, EI, EP, reserved) decode like ... whatever the code does: must not crash, bookkeeping must hold
    for pt in (3, 5, 8):
        out.append((1, 3, S(0, [mberr("Eof")], pt=pt, fk=7)))
    # one macroblock record of every kind, then end of data
    for pt, kinds in ((0, [(0, 3), (0, 4), 1, 2]), (1, [(0, 0), (0, 1), (0, 2), (0, 3), (0, 4), (0, 5), 1, 2]), (2, [(0, 0), (0, 3), 1])):
        for k in kinds:
            for sh in ([2, 3] if not th else shapes):
                out.append((1, sh, S(0, [k, mberr("Eof")], pt=pt, fk=7)))
    # macroblock-level errors (first record), with the GOB probe answering in every way (standard mode resynchronises)
    for kind in ("InvalidMacroblockHeader", "InvalidMacroblockCodedBits", "InvalidMvd", "Unimplemented", "InvalidGobHeader", "InvalidBitstream"):
        for gob in ((0, 0), (1, 0), (1, 5), (2, 0), (3, 7)):
            if kind not in ("InvalidMacroblockHeader", "InvalidMacroblockCodedBits") and gob != (0, 0):
                continue
            out.append((1, 2, S(0, [mberr(kind), mberr("Eof")], pt=1, fk=7, gob={0: gob})))
    # block-level errors inside a coded macroblock
    for j in (0, 3, 4, 5):
        for kind in ("InvalidIntraDc", "InvalidShortCoefficient", "Eof"):
            out.append((1, 2, S(0, [(0, 3), mberr("Eof")], pt=0, fk=7, blk_err=(0, j, E[kind]))))
    # more macroblock records than the picture holds (one 16x16 macroblock): the rest belongs to the next picture
    for second in ((0, 3), 1, (0, 0)):
        out.append((1, 2, S(0, [(0, 3) if second == (0, 3) else 1, second, mberr("Eof")], pt=0 if second == (0, 3) else 1, fk=7)))
    # 2x2 macroblocks
    if th:
        for sh in (2, 3):
            out.append((2, sh, S(0, [1, 1, 1, 1, mberr("Eof")], pt=1, fk=7)))
            out.append((2, sh, S(0, [(0, 3), (0, 3), mberr("Eof")], pt=0, fk=7)))
            out.append((2, sh, S(0, [(0, 0), (0, 2), 1, (0, 5), 1], pt=1, fk=7)))
    return out


def jobs_for(tier, seed, quick_n=14, timeout=1500):
    fam = family(tier)
    if tier == "quick":
        rnd = random.Random(seed)
        must = [x for x in fam if x[2].hk == 0 and len(x[2].mbs) >= 2 and x[1] == 3][:3]
        must += [x for x in fam if len(x[2].mbs) == 3][:2]
        must += [x for x in fam if x[2].blk_err and x[1] == 2][:1]
        must += [x for x in fam if x[2].pt == 2 and x[2].hk == 0 and x[1] == 2 and len(x[2].mbs) == 2 and x[2].mbs[0] == 1][:1]
        rest = [x for x in fam if x not in must]
        fam = must[:quick_n] + rnd.sample(rest, max(0, quick_n - len(must)))
    gen, jobs = "", []
    for idx, (cls, sh, sc) in enumerate(fam):
        gen += g.core_c1(cls, sh, idx, sc)
        twin = None
        if sc.pt == 2 and sc.hk == 0 and sh >= 2:
            # twin with the recorded finding KF-C04-1 assumed away (only consulted when the plain harness fails)
            gen += g.core_c1(cls, sh, idx, sc, excl=True)
            twin = g.core_c1_name(cls, sh, idx) + "_x"
            jobs.append(Job("h263", twin, timeout, tagged=True, group="decoder-core step (known finding excluded)", is_kf_twin=True,
                            params={"scenario": sc.describe(), "excluded": "disposable picture with the reference's temporal reference"},
                            cbmc_args=["--max-field-sensitivity-array-size", "%d" % max(200, sc.nbytes() + 8)], allow_uncovered=ALL_COVERS,
                            need_any_cover=("step returned Ok", "step returned Err")))
        jobs.append(Job("h263", g.core_c1_name(cls, sh, idx), timeout, tagged=True, group="decoder-core step",
                        params={"macroblocks_per_side": cls, "pre_state_shape": ["fresh", "last only", "last == reference", "last != reference"][sh], "scenario": sc.describe()},
                        cbmc_args=["--max-field-sensitivity-array-size", "%d" % max(200, sc.nbytes() + 8)],
                        allow_uncovered=ALL_COVERS, need_any_cover=("step returned Ok", "step returned Err"), kf_twin=twin))
    for (w, h) in ((0, 0), (0, 5), (5, 0)):
        for sh in ((0, 2) if tier == "quick" else (0, 1, 2, 3)):
            gen += g.core_zero(w, h, sh)
            jobs.append(Job("h263", g.core_zero_name(w, h, sh), timeout, tagged=True, group="zero-sized picture", params={"w": w, "h": h, "pre_state_shape": sh},
                            cbmc_args=["--max-field-sensitivity-array-size", "200"], allow_uncovered=("step returned Ok", "step returned Err"),
                            need_any_cover=("step returned Ok", "step returned Err")))
    return gen, jobs


ALL_COVERS = ("step returned Ok", "step returned Err", "P picture predicted from the reference", "I picture decoded", "disposable picture decoded", "format inherited", "failure after a good header")


def dquant_jobs(tier, seed, timeout=1500):
    """decoder-core scenarios with a +Q macroblock (DQUANT tracking: quantizer stays in 1..31)"""
    fam = [(1, 2, S(0, [(0, 4), mberr("Eof")], pt=0, fk=7)), (1, 2, S(0, [(0, 1), mberr("Eof")], pt=1, fk=7))]
    if tier == "thorough":
        fam += [(1, 3, S(0, [(0, 5), mberr("Eof")], pt=1, fk=7)), (2, 2, S(0, [(0, 4), (0, 4), (0, 4), mberr("Eof")], pt=0, fk=7)),
                (2, 3, S(0, [(0, 1), (0, 0), (0, 5), (0, 4)], pt=1, fk=7))]
    gen, jobs = "", []
    for idx, (cls, sh, sc) in enumerate(fam):
        gen += g.core_c1(cls, sh, 900 + idx, sc, qobs=True)
        jobs.append(Job("h263", g.core_c1_name(cls, sh, 900 + idx), timeout, tagged=True, group="decoder-core step: DQUANT", params={"scenario": sc.describe()},
                        cbmc_args=["--max-field-sensitivity-array-size", "%d" % max(200, sc.nbytes() + 8)], allow_uncovered=ALL_COVERS,
                        need_any_cover=("step returned Ok", "step returned Err")))
    return gen, jobs
