#!/bin/sh
# Offline set-up: pre-builds the dependency crates of /repo under Kani into /verif/.cache/kani-target
# (an optimisation only; every check rebuilds the three workspace crates from /repo's working tree).
set -e
cd "$(dirname "$0")"
export CARGO_NET_OFFLINE=true
python3 -m vf.driver --warm-cache || true
exit 0
