
// ---------------------------------------------------------------------------
// /verif support module (appended to every crate root of the scratch copy).
//
// All nondeterminism of every harness goes through `vs::nd`, so that the very
// same harness body can be (a) decided symbolically by Kani/CBMC and
// (b) re-executed natively on the witness values of a counterexample
// (`--cfg verif_replay`, see /verif/vf/driver.py: replay).
// ---------------------------------------------------------------------------
#[cfg(any(kani, verif_replay))]
#[allow(dead_code, unused, clippy::all)]
pub mod vs {
    #[cfg(not(kani))]
    pub mod replay {
        use std::cell::RefCell;
        thread_local! {
            static VALS: RefCell<(Vec<Vec<u8>>, usize, usize)> = RefCell::new((Vec::new(), 0, 0));
        }
        pub fn load(vals: Vec<Vec<u8>>) {
            VALS.with(|v| *v.borrow_mut() = (vals, 0, 0));
        }
        /// Number of values requested after the witness ran out / with a size mismatch.
        pub fn mismatches() -> usize {
            VALS.with(|v| v.borrow().2)
        }
        /// entry point of the native replay: harness name and witness file come from the environment
        pub fn run_entry(table: &[(&str, fn())]) {
            let name = std::env::var("VERIF_HARNESS").expect("VERIF_HARNESS");
            let wf = std::env::var("VERIF_WITNESS").expect("VERIF_WITNESS");
            let txt = std::fs::read_to_string(&wf).expect("witness file");
            let mut vals: Vec<Vec<u8>> = Vec::new();
            for line in txt.lines() {
                let line = line.trim();
                if line.starts_with('#') || line.is_empty() {
                    continue;
                }
                if line == "-" {
                    vals.push(Vec::new());
                    continue;
                }
                vals.push(line.split(',').map(|s| s.trim().parse::<u8>().unwrap()).collect());
            }
            load(vals);
            for (n, f) in table {
                if *n == name {
                    println!("VERIF-REPLAY: START {}", name);
                    f();
                    return;
                }
            }
            panic!("unknown harness {}", name);
        }
        pub fn pop(n: usize) -> Vec<u8> {
            VALS.with(|v| {
                let mut g = v.borrow_mut();
                let i = g.1;
                g.1 += 1;
                if i < g.0.len() && g.0[i].len() == n {
                    g.0[i].clone()
                } else {
                    g.2 += 1;
                    vec![0u8; n]
                }
            })
        }
    }

    pub trait Nd: Sized {
        fn nd() -> Self;
    }

    macro_rules! nd_int {
        ($($t:ty),*) => {$(
            impl Nd for $t {
                #[cfg(kani)]
                #[inline(always)]
                fn nd() -> $t { kani::any() }
                #[cfg(not(kani))]
                fn nd() -> $t {
                    let b = replay::pop(core::mem::size_of::<$t>());
                    let mut a = [0u8; core::mem::size_of::<$t>()];
                    a.copy_from_slice(&b);
                    <$t>::from_le_bytes(a)
                }
            }
        )*};
    }
    nd_int!(u8, u16, u32, u64, u128, usize, i8, i16, i32, i64, i128, isize);

    impl Nd for bool {
        #[cfg(kani)]
        #[inline(always)]
        fn nd() -> bool { kani::any() }
        #[cfg(not(kani))]
        fn nd() -> bool { replay::pop(1)[0] & 1 == 1 }
    }

    impl<const N: usize> Nd for [u8; N] {
        #[cfg(kani)]
        #[inline(always)]
        fn nd() -> [u8; N] { kani::any() }
        #[cfg(not(kani))]
        fn nd() -> [u8; N] {
            // Kani's concrete playback lists array elements one by one
            let mut a = [0u8; N];
            for i in 0..N {
                a[i] = replay::pop(1)[0];
            }
            a
        }
    }

    #[inline(always)]
    pub fn nd<T: Nd>() -> T { T::nd() }

    /// nondeterministic value in lo..=hi
    #[inline(always)]
    pub fn nd_range_usize(lo: usize, hi: usize) -> usize {
        let v: usize = nd();
        assume(v >= lo && v <= hi);
        v
    }

    #[cfg(kani)]
    #[inline(always)]
    pub fn assume(c: bool) { kani::assume(c) }
    #[cfg(not(kani))]
    pub fn assume(c: bool) {
        if !c {
            // a witness that violates an assumption is not a counterexample
            println!("VERIF-REPLAY: ASSUMPTION-VIOLATED");
            std::process::exit(3);
        }
    }

    /// Marks the place where the harness ends normally (native replay only).
    pub fn done() {
        #[cfg(not(kani))]
        println!("VERIF-REPLAY: HARNESS-COMPLETED mismatches={}", replay::mismatches());
    }

    #[cfg(kani)]
    #[macro_export]
    macro_rules! vcover {
        ($c:expr, $m:literal) => { kani::cover!($c, $m) };
    }
    #[cfg(not(kani))]
    #[macro_export]
    macro_rules! vcover {
        ($c:expr, $m:literal) => { if $c { println!("VERIF-REPLAY: COVER {}", $m); } };
    }
}

// ---------------------------------------------------------------------------
// Lane-wise models of the SSE2 intrinsics Kani 0.68 cannot translate
// (llvm.x86.sse2.psra.* / psll.* and the simd_select behind pmaxsw/pminsw).
// Semantics: Intel SDM vol. 2 (PSRAW/PSRAD/PSLLD/PMAXSW/PMINSW).
// Attached per harness with #[kani::stub(core::arch::x86_64::_mm_…, crate::vs_x86::…)].
// ---------------------------------------------------------------------------
#[cfg(kani)]
#[allow(dead_code, unused, clippy::all)]
pub mod vs_x86 {
    use core::arch::x86_64::__m128i;
    use core::mem::transmute;

    pub unsafe fn sra_epi32(a: __m128i, count: __m128i) -> __m128i {
        let a: [i32; 4] = transmute(a);
        let c: [u64; 2] = transmute(count);
        let n = if c[0] > 31 { 31 } else { c[0] as u32 };
        transmute([a[0] >> n, a[1] >> n, a[2] >> n, a[3] >> n])
    }
    pub unsafe fn sll_epi32(a: __m128i, count: __m128i) -> __m128i {
        let a: [u32; 4] = transmute(a);
        let c: [u64; 2] = transmute(count);
        if c[0] > 31 {
            transmute([0u32; 4])
        } else {
            let n = c[0] as u32;
            transmute([a[0] << n, a[1] << n, a[2] << n, a[3] << n])
        }
    }
    pub unsafe fn sra_epi16(a: __m128i, count: __m128i) -> __m128i {
        let a: [i16; 8] = transmute(a);
        let c: [u64; 2] = transmute(count);
        let n = if c[0] > 15 { 15 } else { c[0] as u32 };
        transmute([
            a[0] >> n, a[1] >> n, a[2] >> n, a[3] >> n,
            a[4] >> n, a[5] >> n, a[6] >> n, a[7] >> n,
        ])
    }
    #[inline(always)]
    fn mx(a: i16, b: i16) -> i16 { if a > b { a } else { b } }
    #[inline(always)]
    fn mn(a: i16, b: i16) -> i16 { if a < b { a } else { b } }
    pub unsafe fn max_epi16(a: __m128i, b: __m128i) -> __m128i {
        let a: [i16; 8] = transmute(a);
        let b: [i16; 8] = transmute(b);
        transmute([
            mx(a[0], b[0]), mx(a[1], b[1]), mx(a[2], b[2]), mx(a[3], b[3]),
            mx(a[4], b[4]), mx(a[5], b[5]), mx(a[6], b[6]), mx(a[7], b[7]),
        ])
    }
    pub unsafe fn min_epi16(a: __m128i, b: __m128i) -> __m128i {
        let a: [i16; 8] = transmute(a);
        let b: [i16; 8] = transmute(b);
        transmute([
            mn(a[0], b[0]), mn(a[1], b[1]), mn(a[2], b[2]), mn(a[3], b[3]),
            mn(a[4], b[4]), mn(a[5], b[5]), mn(a[6], b[6]), mn(a[7], b[7]),
        ])
    }
}
